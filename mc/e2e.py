"""Shared S2 machinery: standard world sets, the WorldLayer, and the per-record judges used by C01-B, C02, C03-B, C04-B, C18-B.

Every judge works from the *text* of the files COMA wrote and the *text* of the CMAP inputs (independent parsers), except
C04-B (needs the returned rows' segments) and C18-B (drives COMA's own reader, which is the subject).
"""
import io
import itertools

from mc import core, worlds, driver, cmaptext, xmaptext
from mc.oracles import matching_problems, hitenum_problems

MODES = ('all', 'joined', 'separate', 'best')
QIDS = (30, 4, 17, 9, 5216)


# ------------------------------------------------------------------------------------------------
# standard world sets

def std_refs():
    return [worlds.catalogue_ref(0, 'menu', 70, ref_id=24, decimals=True),
            worlds.catalogue_ref(0, 'lattice1400', 64, ref_id=3),
            worlds.catalogue_ref(1, 'exp', 66, ref_id=117, decimals=True)]


def std_queries(tier, seed, depth2=True):
    """[(ref_index, script, positions)] - noise-free windows of the catalogue references and all their edit scripts"""
    refs = std_refs()
    out = []
    full = tier == 'thorough'
    if tier == 'quick':
        wins = [(0, 6, 20), (0, 31, 12), (1, 12, 20), (2, 25, 28)]
    else:
        wins = [(ri, s, l) for ri in range(3) for s, l in ((6, 20), (31, 12), (17, 28), (40, 16), (12, 20), (25, 24))]
        wins.append((seed % 3, 5 + seed % 30, 18))
    offsets = (0.0, 20.0, 777.7)
    for wi, (ri, s, l) in enumerate(wins):
        ref = refs[ri]
        for rev in (False, True):
            (qid, qlen, q), truth = worlds.window_query(ref, s, l, rev)
            # chimera partners: another window of the same reference (same strand / other strand) and of another reference
            o_same = worlds.window_query(ref, (s + l + 9) % (len(ref[2]) - 12), 9, rev)[0][2]
            o_flip = worlds.window_query(ref, (s + l + 9) % (len(ref[2]) - 12), 9, not rev)[0][2]
            o_other = worlds.window_query(refs[(ri + 1) % 3], 20, 9, rev)[0][2]
            chim = [(o_same, 2100), (o_same, 28000), (o_same, 140000), (o_flip, 5600), (o_other, 5600)]
            off = offsets[wi % 3]
            for depth in (0, 1):
                for script, pos in worlds.scripts(q, depth, full, chim):
                    out.append((ri, dict(window=[ri, s, l], reverse=rev, offset=off, script=_js(script)), [round(p + off, 1) for p in pos]))
            # chimera x coincident label near the junction (a 2-deviation slice): a second-pass fragment then starts at / next to the
            # second of two coincident labels, where label numbers are easily off by one
            for other, gap in (chim[0], chim[2]):
                cq = worlds.apply_edit(q, ('chimera', list(other), gap))
                for j in range(max(1, len(q) - 4), min(len(cq) - 1, len(q) + 4)):
                    dq = worlds.apply_edit(cq, ('dup', j))
                    out.append((ri, dict(window=[ri, s, l], reverse=rev, offset=off, script=[['chimera', 'window', gap], ['dup', j]]),
                                [round(p + off, 1) for p in dq]))
            # transposition: the window that lies DOWNSTREAM on the reference (close enough to be a join candidate) comes FIRST in the
            # molecule - the two parts are each placed correctly but are not collinear, so they must not be joined into one record
            near = worlds.window_query(ref, min(s + l + 2, len(ref[2]) - 11), 10, rev)[0][2]
            for gap in (5600.0, 30000.0):
                first, second = (near, q) if not rev else (q, near)
                tq = worlds.apply_edit(list(first), ('chimera', list(second), gap))
                out.append((ri, dict(window=[ri, s, l], reverse=rev, offset=off, script=[['transposed-chimera', gap]]), [round(p + off, 1) for p in tq]))
            if depth2 and tier == 'thorough' and wi % 5 == 0:
                for script, pos in worlds.scripts(q, 2, False, chim[:2]):
                    out.append((ri, dict(window=[ri, s, l], reverse=rev, offset=off, script=_js(script)), [round(p + off, 1) for p in pos]))
    # four-part molecules around an inversion breakpoint: forward head (copy of a reference stretch), unrelated labels, the ADJACENT
    # reference stretch inverted (the longest part: it wins the first pass on the other strand), unrelated tail
    for ri in range(3 if tier == 'thorough' else 2):
        ref, other = refs[ri], refs[(ri + 1) % 3]
        for s0, rev in ((8, False), (30, True)):
            head = worlds.window_query(ref, s0, 12, rev)[0][2]
            u1 = worlds.window_query(other, 5, 11, False)[0][2]
            binv = worlds.window_query(ref, s0 + 12, 20, not rev)[0][2]
            u2 = worlds.window_query(other, 40, 12, True)[0][2]
            parts = [head, u1, binv, u2] if not rev else [u2, binv, u1, head]
            q4 = list(parts[0])
            for part in parts[1:]:
                q4 = worlds.apply_edit(q4, ('chimera', list(part), 5000.0))
            out.append((ri, dict(window=[ri, s0, 32], reverse=rev, offset=0.0, script=[['inversion-4-part']]), q4))
    return refs, out


def _js(script):
    return [[x if not isinstance(x, list) else 'window(%d labels)' % len(x) for x in op] for op in script]


UNLABELLED_REF = (1, 2600000.0, [])


def std_worlds(tier, seed, per_world=4, depth2=True):
    """pack the standard queries into worlds of `per_world` queries (ids unsorted in the file); every third world lists all
    three references (in a non-sorted id order), the others only the planted one"""
    refs, qs = std_queries(tier, seed, depth2)
    by_ref = {}
    for ri, desc, pos in qs:
        by_ref.setdefault(ri, []).append((desc, pos))
    ws = []
    for ri, lst in sorted(by_ref.items()):
        for i in range(0, len(lst), per_world):
            grp = lst[i:i + per_world]
            queries = [worlds.as_map(QIDS[j], pos, trailing=(0.0, 2500.0, -1.0, 2500.0, 0.0, -0.6)[(i // per_world + j) % 6])
                       for j, (desc, pos) in enumerate(grp)]
            wrefs = [refs[ri]] if (i // per_world) % 3 else [refs[ri], refs[(ri + 1) % 3], refs[(ri + 2) % 3]]
            if (i // per_world) % 3 == 2:
                # an unlabelled molecule with the LOWEST id leads the reference file (it must not disturb the maps that follow it)
                wrefs = [UNLABELLED_REF] + wrefs
            ws.append(dict(refs=wrefs, queries=queries, desc=[d for d, _ in grp], extra_column=(i // per_world) % 2 == 1))
    ws.append(far_world())
    ws += transposition_worlds()
    return ws


def transposition_worlds():
    """two-part molecules on the repetitive lattice-1400 reference whose parts come in the order that is NOT collinear with the
    reference (the part lying downstream on the reference leads the molecule), the two source windows adjacent: the second-pass
    fragment then finds a placement within maxDifference of the first-pass alignment, and joining the two would give a record whose
    label numbers run backwards (the defect repaired by fix d46c841 showed on exactly this shape)"""
    ref = std_refs()[1]
    out = []
    for s, l, nl, gap in ((12, 20, 10, 30000.0), (12, 20, 10, 28000.0), (12, 20, 9, 30000.0), (20, 16, 10, 30000.0)):
        qs = []
        for j, rev in enumerate((False, True)):
            q = worlds.window_query(ref, s, l, rev)[0][2]
            near = worlds.window_query(ref, s + l, nl, rev)[0][2]
            first, second = (near, q) if not rev else (q, near)
            qs.append(worlds.as_map(QIDS[j + 1], worlds.apply_edit(list(first), ('chimera', list(second), gap))))
        out.append(dict(refs=[ref], queries=qs, desc=['transposed two-part molecule (%d+%d labels, gap %s) %s' % (nl, l, gap, st) for st in '+-']))
    return out


def far_world():
    """a reference whose coordinates lie beyond 2^24 bp (17.3 Mb, one decimal): single-precision arithmetic anywhere between the
    CMAP text and the XMAP text shows as wrong RefStartPos / RefEndPos / RefLen"""
    far = worlds.catalogue_ref(2, 'menu', 40, ref_id=77, lead=17300000.4)
    qs = []
    for j, (s, l, rev) in enumerate(((5, 16, False), (14, 18, True), (20, 12, False))):
        q = worlds.window_query(far, s, l, rev)[0][2]
        qs.append(worlds.as_map(QIDS[j], q, trailing=2500.0 * (j % 2), offset=(0.0, 777.7, 20.0)[j]))
    return dict(refs=[far], queries=qs, desc=['far-coordinate reference (17.3 Mb)'] * 3)


# ------------------------------------------------------------------------------------------------

class RunCtx:
    """everything a judge may look at for one world: independent parse of inputs, observations per mode"""

    def __init__(self, world):
        self.world = world
        self.rmaps = cmaptext.parse(cmaptext.text([tuple(m) for m in world['refs']], world.get('extra_column', False)))
        self.qmaps = cmaptext.parse(cmaptext.text([tuple(m) for m in world['queries']], world.get('extra_column', False)))
        self.obs = {}
        self.joined_ids = set()
        self.key = None


class WorldLayer(core.Layer):
    """block = one world; runs it in the given modes (and parameter settings) and applies the judge to each run"""

    def __init__(self, name, world_list, judge, modes=MODES, extras=((),), optional=False, keep_result=False, extensions=None,
                 rule='', bounds=None, cli_every=0, in_child=None):
        self.name = name
        self.worlds = world_list
        self.judge = judge
        self.modes = modes
        self.extras = extras
        self.optional = optional
        self.keep_result = keep_result
        self.in_child = in_child        # in_child(ctx, mode, extra, obs) runs inside the run's own process; result -> obs.extra
        self.extensions = extensions
        self.rule = rule or '%d worlds x %d modes x %d parameter settings' % (len(world_list), len(modes), len(extras))
        self.bounds = bounds or {}
        self.cli_every = cli_every

    def nblocks(self):
        return len(self.worlds) * len(self.extras)

    def run_block(self, b, acc):
        w = self.worlds[b // len(self.extras)]
        acc.seq += 1
        found = self.run_one(w, acc, cli=bool(self.cli_every) and b % self.cli_every == 0, key=b,
                             extras=[self.extras[b % len(self.extras)]])
        case = lambda: dict(world=worlds.jsonable(w))  # noqa: E731
        for f in found:
            acc.viol(f[0], case, f[1], f[2], f[3])
        acc.sample(lambda: dict(world=_brief(w)))

    def run_one(self, w, acc, cli=False, key=None, extras=None):
        found = []
        for extra in (extras or self.extras):
            ctx = RunCtx(w)
            ctx.key = key
            for mode in self.modes:
                ext = [e() for e in self.extensions] if self.extensions else None
                hook = None
                if self.in_child is not None:
                    hook = (lambda o, _c=ctx, _m=mode, _e=extra: self.in_child(_c, _m, _e, o))
                obs = driver.run_world(w, mode, extra=list(w.get('args', [])) + list(extra), extensions=ext,
                                       keep_result=self.keep_result, in_child=hook)
                ctx.obs[mode] = obs
                if acc is not None:
                    acc.evals += 1
                    acc.transitions += 3 + sum(obs.map_calls)
                if obs.error:
                    if acc is not None:
                        acc.classes['aborted(deferred-to-C07)'] += 1
                    if self.judge is judge_c07:
                        found += self.judge(ctx, mode, extra, obs, acc)
                    continue
                if mode == 'all':
                    ctx.joined_ids = {int(r['QryContigID']) for r in xmaptext.parse(obs.files.get('main', ''))[2]}
                found += self.judge(ctx, mode, extra, obs, acc)
                if acc is not None:
                    snap = tuple((k, len(xmaptext.parse(t)[2])) for k, t in sorted(obs.files.items()))
                    acc.state((mode, tuple(obs.map_calls), snap))
            if cli and acc is not None:
                mode = self.modes[0]
                rc, err, files = driver.run_cli(w, mode, extra=list(w.get('args', [])) + list(extra), cpus=2)
                same = rc == 0 and {k: driver.strip_echo(v) for k, v in files.items()} == \
                    {k: driver.strip_echo(v) for k, v in ctx.obs[mode].files.items()}
                acc.classes['cli-binding-ok' if same or ctx.obs[mode].error else 'cli-binding-MISMATCH'] += 1
        return found

    def replay(self, case):
        return self.run_one(case['world'], None)


def _brief(w):
    return dict(refs=[[m[0], m[1], '%d labels' % len(m[2])] for m in w['refs']],
                queries=[[m[0], m[1], list(m[2])] for m in w['queries']], desc=w.get('desc'), args=w.get('args'))


def records(ctx, mode, obs):
    """yield (fileKey, index, record, refLabels, qryLabels, isSecondPass, isJoined) parsed independently from text"""
    for fk in ('main', '_1', '_2'):
        if fk not in obs.files:
            continue
        _, _, recs = xmaptext.parse(obs.files[fk])
        for i, r in enumerate(recs):
            try:
                qid, rid = int(r['QryContigID']), int(r['RefContigID'])
            except Exception:
                qid = rid = None
            joined = (mode in ('all', 'joined') and fk == 'main') or (mode == 'best' and qid in ctx.joined_ids)
            yield fk, i, r, ctx.rmaps.get(rid), ctx.qmaps.get(qid), r.get('AlignedRest') == 'True', joined


def _sig(mode, fk, r, second, joined):
    # no file / mode name in the signature: one root cause must stay one violation class
    return dict(strand=r.get('Orientation'), second_pass=second, joined=joined)


def _locus(second, joined):
    return 'join' if joined else ('second-pass' if second else 'first-pass')


def record_valid(r, rmap, qmap):
    if r['pairs'] is None or not r['pairs'] or rmap is None or qmap is None:
        return False
    return not matching_problems(r['pairs'], len(rmap[1]), 1, len(qmap[1]), r['Orientation'] == '-')


# ------------------------------------------------------------------------------------------------
# judges

def judge_c01(ctx, mode, extra, obs, acc):
    found = []
    for fk, i, r, rmap, qmap, second, joined in records(ctx, mode, obs):
        sig = _sig(mode, fk, r, second, joined)
        loc = _locus(second, joined)
        if rmap is None or qmap is None:
            found.append(('record:names-unknown-map', 'record %s' % r['_fields'][:3], loc, sig))
            continue
        if r['pairs'] is None:
            found.append(('record:alignment-unparsable', r.get('Alignment'), loc, sig))
            continue
        if not r['pairs']:
            found.append(('record:no-pair', 'record %s' % r['_fields'][:12], loc, sig))
            continue
        if r['Orientation'] not in ('+', '-'):
            found.append(('record:orientation', r['Orientation'], loc, sig))
            continue
        for p in matching_problems(r['pairs'], len(rmap[1]), 1, len(qmap[1]), r['Orientation'] == '-'):
            found.append(('record:' + p, 'mode=%s file=%s qry=%s ref=%s %s pairs=%s' % (
                mode, fk, r['QryContigID'], r['RefContigID'], r['Orientation'], r['pairs']), loc, sig))
        if acc is not None:
            acc.classes['records'] += 1
            if second or joined or r['Orientation'] == '-':
                acc.nontriv((ctx.key, mode, fk, i))
            if joined:
                acc.classes['joined-records'] += 1
            if second:
                acc.classes['second-pass-records'] += 1
    return found


def fmt1(x):
    return '%.1f' % x


def field_problems(r, rmap, qmap):
    """header fields of one parsed record against its listed pairs and the two input maps (rmap, qmap = (length, positions) from
    the CMAP text); returns [(field, detail)]"""
    out = []

    def bad(sym, detail):
        out.append((sym, detail))
    rev = r['Orientation'] == '-'
    rlen, rpos = rmap
    qlen, qpos = qmap
    n = len(qpos)
    p = r['pairs']
    if r['RefLen'] != fmt1(rlen):
        bad('RefLen', 'expected %s' % fmt1(rlen))
    if r['QryLen'] != fmt1(qpos[-1] - qpos[0] + 1):
        bad('QryLen', 'expected %s' % fmt1(qpos[-1] - qpos[0] + 1))
    if r['RefStartPos'] != fmt1(rpos[p[0][0] - 1]) or r['RefEndPos'] != fmt1(rpos[p[-1][0] - 1]):
        bad('RefStartPos/RefEndPos', 'expected %s %s' % (fmt1(rpos[p[0][0] - 1]), fmt1(rpos[p[-1][0] - 1])))
    qmin = min(x[1] for x in p)
    qmax = max(x[1] for x in p)
    if not rev:
        es, ee = qpos[qmin - 1] - qpos[0], qpos[qmax - 1] - qpos[0]
    else:
        es, ee = qpos[n - 1] - qpos[qmin - 1], qpos[n - 1] - qpos[qmax - 1]
    if r['QryStartPos'] != fmt1(es) or r['QryEndPos'] != fmt1(ee):
        bad('QryStartPos/QryEndPos', 'expected %s %s' % (fmt1(es), fmt1(ee)))
    try:
        s_, e_ = float(r['QryStartPos']), float(r['QryEndPos'])
        if (not rev and not s_ <= e_) or (rev and not s_ >= e_):
            bad('Qry-start-end-order', '')
    except ValueError:
        bad('Qry-not-a-number', '')
    return out


def judge_c02(ctx, mode, extra, obs, acc):
    found = []
    for fk, i, r, rmap, qmap, second, joined in records(ctx, mode, obs):
        sig = _sig(mode, fk, r, second, joined)
        loc = _locus(second, joined)

        def bad(sym, detail):
            found.append(('field:' + sym, 'mode=%s file=%s rec=%s | %s' % (mode, fk, r['_fields'][:13], detail), loc, sig))

        if r['XmapEntryID'] != str(i + 1):
            bad('XmapEntryID', 'expected %d' % (i + 1))
        if rmap is None or qmap is None:
            bad('ContigID-names-no-input-map', '')
            continue
        if r['Orientation'] not in ('+', '-'):
            bad('Orientation', r['Orientation'])
            continue
        if not r['pairs'] or any(not (1 <= a <= len(rmap[1]) and 1 <= b <= len(qmap[1])) for a, b in r['pairs']):
            if acc is not None:
                acc.classes['deferred-to-C01(no pairs / labels that do not exist)'] += 1
            continue
        # a record whose pair list is not a valid matching is still judged: every field formula below is defined for any list of
        # existing labels (first / last listed reference label, lowest / highest listed query label)
        if acc is not None and not record_valid(r, rmap, qmap):
            acc.classes['records-with-invalid-matching'] += 1
        rev = r['Orientation'] == '-'
        qpos = qmap[1]
        for sym, detail in field_problems(r, rmap, qmap):
            bad(sym, detail)
        if acc is not None:
            acc.classes['records'] += 1
            if rev or second or qpos[0] != 0:
                acc.nontriv((ctx.key, mode, fk, i))
            if second:
                acc.classes['second-pass-records'] += 1
            if rev:
                acc.classes['reverse-records'] += 1
    return found


def judge_c03(ctx, mode, extra, obs, acc):
    found = []
    for fk, i, r, rmap, qmap, second, joined in records(ctx, mode, obs):
        if not r['pairs'] or r['Orientation'] not in ('+', '-'):
            if acc is not None:
                acc.classes['deferred-to-C01(no pairs / orientation)'] += 1
            continue
        # records whose pair list is not a valid matching are judged too: no HitEnum string can replay to such a list, so the
        # statement of C03 fails for them as well (C01 reports the root cause)
        if acc is not None and not record_valid(r, rmap, qmap):
            acc.classes['records-with-invalid-matching'] += 1
        rev = r['Orientation'] == '-'
        for pr in hitenum_problems(r['HitEnum'], r['pairs'], rev):
            found.append((pr, 'mode=%s file=%s hit=%r pairs=%s %s' % (mode, fk, r['HitEnum'], r['pairs'], r['Orientation']),
                          _locus(second, joined), _sig(mode, fk, r, second, joined)))
        if acc is not None:
            acc.classes['records'] += 1
            if 'D' in r['HitEnum'] or 'I' in r['HitEnum']:
                acc.nontriv((ctx.key, mode, fk, i))
                acc.classes['records-with-gaps'] += 1
    return found


_READERS = {}


def _coma_readers(ctx):
    from src.parsers.cmap_reader import CmapReader
    from src.parsers.xmap_reader import XmapReader
    from src.parsers.xmap_alignment_pair_parser import XmapAlignmentPairWithDistanceParser
    w = ctx.world
    refs = CmapReader().readReferences(io.StringIO(cmaptext.text([tuple(m) for m in w['refs']], w.get('extra_column', False))))
    qs = [q.trim() for q in CmapReader().readQueries(io.StringIO(cmaptext.text([tuple(m) for m in w['queries']],
                                                                                w.get('extra_column', False))))]
    return XmapReader(XmapAlignmentPairWithDistanceParser(refs, qs)), XmapReader(), refs, qs


def readback_problems(txt, readers, rmaps, qmaps, only_valid=True):
    """read `txt` with COMA's XmapReader (both pair parsers) and compare with the independent parse of the same text"""
    withdist, plain, refs, qs = readers
    _, _, recs = xmaptext.parse(txt)
    out = []
    for label, rd in (('with-distance-parser', withdist), ('plain-parser', plain)):
        try:
            back = rd.readAlignments(io.StringIO(txt))
        except Exception as e:
            out.append(('readback-exception', '%s %s: %s (records=%d)' % (label, type(e).__name__, str(e)[:200], len(recs)),
                        dict(records=min(len(recs), 2))))
            continue
        if len(back) != len(recs):
            out.append(('readback-count', '%s got %d expected %d' % (label, len(back), len(recs)), {}))
            continue
        for b, r in zip(back, recs):
            rmap, qmap = rmaps.get(int(r['RefContigID'])), qmaps.get(int(r['QryContigID']))
            if only_valid and not record_valid(r, rmap, qmap):
                continue
            exp = dict(queryId=int(r['QryContigID']), referenceId=int(r['RefContigID']),
                       queryStartPosition=int(float(r['QryStartPos'])), queryEndPosition=int(float(r['QryEndPos'])),
                       referenceStartPosition=int(float(r['RefStartPos'])), referenceEndPosition=int(float(r['RefEndPos'])),
                       reverseStrand=r['Orientation'] == '-', cigarString=r['HitEnum'],
                       queryLength=int(float(r['QryLen'])), referenceLength=int(float(r['RefLen'])))
            got = {k: getattr(b, k, None) for k in exp}
            if got != exp:
                out.append(('readback-fields', '%s got %s expected %s' % (label, got, exp), {}))
            try:
                if abs(float(b.confidence) - float(r['Confidence'])) > 1e-9 or int(b.alignmentId) != int(r['XmapEntryID']):
                    out.append(('readback-confidence-or-id', '%s %s vs %s' % (label, b.confidence, r['Confidence']), {}))
            except Exception:
                out.append(('readback-confidence-or-id', '%s unparsable %r' % (label, b.confidence), {}))
            if [(x.reference.siteId, x.query.siteId) for x in b.alignedPairs] != r['pairs']:
                out.append(('readback-pairs', '%s got %s expected %s' % (label, b.alignedPairs, r['pairs']), {}))
            elif label == 'with-distance-parser':
                rp, qp = rmap[1], qmap[1]
                if any(x.reference.position != rp[x.reference.siteId - 1] or
                       abs(x.query.position - (qp[x.query.siteId - 1] - qp[0])) > 1e-6 for x in b.alignedPairs):
                    out.append(('readback-pair-coordinates', '%s %s' % (label, b.alignedPairs), {}))
    # the reader's own id filters: a filter that matches nothing yields an empty list, one that names a query yields its records
    try:
        if plain.readAlignments(io.StringIO(txt), queryIds=[987654321]) != []:
            out.append(('readback-filter', 'queryIds filter matching nothing did not return []', {}))
        if plain.readAlignments(io.StringIO(txt), alignmentIds=[987654321]) != []:
            out.append(('readback-filter', 'alignmentIds filter matching nothing did not return []', {}))
        if recs:
            q0 = int(recs[0]['QryContigID'])
            got = plain.readAlignments(io.StringIO(txt), queryIds=[q0])
            if len(got) != sum(1 for r in recs if int(r['QryContigID']) == q0):
                out.append(('readback-filter', 'queryIds=[%d] returned %d alignments' % (q0, len(got)), {}))
    except Exception as e:
        out.append(('readback-filter-exception', '%s: %s (records=%d)' % (type(e).__name__, str(e)[:200], len(recs)), {}))
    return out, len(recs)


def judge_c18(ctx, mode, extra, obs, acc):
    found = []
    if not hasattr(ctx, 'readers'):
        ctx.readers = _coma_readers(ctx)
    for fk, txt in sorted(obs.files.items()):
        probs, n = readback_problems(txt, ctx.readers, ctx.rmaps, ctx.qmaps)
        for sym, detail, sig in probs:
            found.append((sym, 'mode=%s file=%s %s' % (mode, fk, detail), 'reader', sig))
        if acc is not None:
            acc.classes['files'] += 1
            acc.classes['records'] += n
            if n == 0:
                acc.classes['zero-record-files'] += 1
            if n >= 1:
                acc.nontriv((ctx.key, mode, fk))
    return found


def judge_c07(ctx, mode, extra, obs, acc):   # placeholder replaced by mc.props.c07 (kept for WorldLayer's abort routing)
    return []


def c01_layers(tier, seed):
    ws = std_worlds(tier, seed)
    b = dict(references='3 catalogue references (menu/lattice1400/exp families; ids 24, 3, 117)', queries_per_world=4,
             edit_depth=[0, 1] if tier == 'quick' else [0, 1, 2], index_menu='5-point' if tier == 'quick' else 'all indices (depth 1)',
             modes=list(MODES), worlds=len(ws))
    # runs with the diagnostic plots switched on (-D): the plotting extensions see every row inside the worker before it is written
    refs = std_refs()
    dq = []
    for j, (ri, s0, rev) in enumerate(((0, 8, False), (2, 20, True), (0, 30, True)) if tier == 'quick' else
                                      ((0, 8, False), (2, 20, True), (0, 30, True), (1, 10, False), (2, 5, False), (1, 30, True))):
        q = worlds.window_query(refs[ri], min(s0, len(refs[ri][2]) - 44), 42, rev)[0][2]
        def wide(lo):       # first interval at or behind index lo that can lose 5 kb
            return next(i for i in range(lo, len(q) - 1) if q[i + 1] - q[i] > 6500)
        if not rev:
            i1 = wide(11)
            q = worlds.apply_edit(worlds.apply_edit(q, ('indel', i1, -5000.0)), ('indel', i1 + 13, 2500.0))
        else:
            i2 = wide(24)
            q = worlds.apply_edit(worlds.apply_edit(q, ('indel', i2 - 13, 2500.0)), ('indel', i2, -5000.0))
        dq.append((ri, worlds.as_map(QIDS[j % 3], q)))
    dws = [dict(refs=[refs[ri]], queries=[m], args=['-D'], desc=['deletion then insertion, diagnostics on']) for ri, m in dq]
    return [WorldLayer('B:worlds', ws, judge_c01, bounds=b, cli_every=97,
                       rule='every record of every file (main,_1,_2) of every standard world in 4 modes; non-trivial = record is '
                            'reverse-strand, second-pass or joined'),
            WorldLayer('B:minScore3000', [w for i, w in enumerate(ws) if i % 3 == 1 or i >= len(ws) - 5], judge_c01, modes=('best', 'all'),
                       extras=(('-ms', '3000'),), bounds=dict(worlds=len([1 for i in range(len(ws)) if i % 3 == 1 or i >= len(ws) - 5]), modes=['best', 'all'], option='-ms 3000'),
                       rule='every third standard world with a stricter minScore (peaks that yield no segment precede the one that does)'),
            WorldLayer('B:diagnostics', dws, judge_c01, modes=('best',), bounds=dict(worlds=len(dws), modes=['best'], option='-D'),
                       rule='%d molecules with a 5 kb deletion followed by a 2.5 kb insertion, aligned with the diagnostic plots enabled' % len(dws))]


# ------------------------------------------------------------------------------------------------
# multi-query worlds (C05, C08, C10)

def query_pool():
    """named single-query position lists over the three standard references: plain windows on both strands, partial (cut), indel,
    chimeric (same reference/same strand at several gaps, other strand, other reference) and unalignable molecules"""
    refs = std_refs()
    pool = []
    late = []       # transposed: the two parts in the order that is NOT collinear with the reference (each part alignable, the pair
                    # not joinable); appended behind everything else so that the positions of the older entries do not move

    def win(ri, s, l, rev):
        return worlds.window_query(refs[ri], s, l, rev)[0][2]
    for ri, s, l in ((0, 8, 18), (1, 20, 16), (2, 30, 20), (0, 40, 14)):
        for rev in (False, True):
            pool.append(('plain r%d s%d l%d %s' % (ri, s, l, '-' if rev else '+'), win(ri, s, l, rev)))
    for ri, s, l, s2, l2, rev in ((0, 6, 14, 27, 12, False), (1, 10, 12, 28, 14, True), (2, 12, 13, 33, 12, False)):
        a, b = win(ri, s, l, rev), win(ri, s2, l2, rev)
        first, second = (a, b) if not rev else (b, a)
        true_gap = (refs[ri][2][s2] - refs[ri][2][s + l - 1])
        for gap in (2100.0, 5600.0, 28000.0, 140000.0, round(true_gap, 1), round(true_gap + 4200.0, 1)):
            pool.append(('chimera r%d same-strand gap %s %s' % (ri, gap, '-' if rev else '+'),
                         worlds.apply_edit(first, ('chimera', second, gap))))
        pool.append(('chimera r%d other-strand' % ri, worlds.apply_edit(a, ('chimera', win(ri, s2, l2, not rev), 5600.0))))
        late.append(('transposed r%d %s' % (ri, '-' if rev else '+'), worlds.apply_edit(second, ('chimera', first, 5600.0))))
        pool.append(('chimera r%d other-reference' % ri, worlds.apply_edit(a, ('chimera', win((ri + 1) % 3, 15, 12, rev), 5600.0))))
    for ri, s, l, rev, i, d in ((0, 10, 24, False, 12, 28000.0), (1, 14, 22, True, 9, 4200.0), (2, 20, 26, False, 13, -4200.0),
                                (0, 30, 24, True, 11, 60000.0)):
        q1 = worlds.apply_edit(win(ri, s, l, rev), ('indel', i, d))
        if q1:
            pool.append(('indel r%d %s@%d %s' % (ri, d, i, '-' if rev else '+'), q1))
    for ri, s, l, rev, k in ((0, 15, 26, False, 9), (2, 8, 24, True, 10)):
        pool.append(('cut-head r%d' % ri, worlds.apply_edit(win(ri, s, l, rev), ('cut', 'head', k))))
    # three-part molecules: the middle part is placed in the first pass, both flanks become second-pass fragments of ONE query
    for t, (ri, ro, rev, la, lc) in enumerate(((0, 1, False, 9, 12), (1, 2, True, 11, 9), (2, 0, False, 10, 10), (0, 0, True, 10, 10))):
        wa, wb, wc = win(ro, 5 + 3 * t, la, rev), win(ri, 22 + t, 16, rev), win(ro, 40 + t, lc, rev)
        q3 = worlds.apply_edit(worlds.apply_edit(wa, ('chimera', wb, 31000.0)), ('chimera', wc, 27000.0))
        pool.append(('chimera3 r%d flanks r%d %s %d+16+%d' % (ri, ro, '-' if rev else '+', la, lc), q3))
    pool.append(('unalignable one-label', [100.0]))
    pool.append(('unalignable two-label', [100.0, 20000.0]))
    pool.append(('unalignable even-spacing', [float(i * 2150) for i in range(12)]))
    pool += late
    return refs, pool


def query_sets(n, seed_tag, size=(3, 5)):
    """n deterministic ordered tuples of pool indices (sizes within `size`), each containing >= 1 chimera/indel and mostly an
    unalignable molecule; ids are assigned from QIDS in tuple order (unsorted in the file)"""
    import random
    refs, pool = query_pool()
    rnd = random.Random('coma-query-sets/%s' % seed_tag)
    special = [i for i, (nm, _) in enumerate(pool) if nm.startswith(('chimera', 'indel', 'cut'))]
    triples = [i for i, (nm, _) in enumerate(pool) if nm.startswith('chimera3')]
    plain = [i for i, (nm, _) in enumerate(pool) if nm.startswith('plain')]
    unal = [i for i, (nm, _) in enumerate(pool) if nm.startswith('unalignable')]
    transposed = [i for i, (nm, _) in enumerate(pool) if nm.startswith('transposed')]
    sets = []
    while len(sets) < n:
        k = rnd.randint(size[0], size[1])
        chosen = [special[(len(sets) * 7 + j * 3) % len(special)] for j in range(1 + (k > 3))]
        if len(sets) % 3 == 0 and triples[len(sets) // 3 % len(triples)] not in chosen:
            chosen.append(triples[len(sets) // 3 % len(triples)])
        if len(sets) % 4 != 3:
            chosen.append(unal[len(sets) % len(unal)])
        if len(sets) % 5 == 2 and transposed and len(chosen) < k:
            chosen.append(transposed[len(sets) // 5 % len(transposed)])
        while len(chosen) < k:
            c = rnd.choice(plain + special)
            if c not in chosen:
                chosen.append(c)
        rnd.shuffle(chosen)
        sets.append(tuple(chosen[:k]))
    return refs, pool, sets


def set_world(refs, pool, idxs, nrefs=3, ids=QIDS, short_ref=False, ref_ids=None):
    if ref_ids:
        # reference ids drawn from the SAME numbers as the query ids (CMAP ids of the two files are unrelated name spaces)
        refs = [(ref_ids[i], r[1], r[2]) for i, r in enumerate(refs)]
    queries = [worlds.as_map(ids[j], pool[i][1], trailing=(0.0, 2500.0)[j % 2], offset=(0.0, 777.7, 20.0)[j % 3]) for j, i in enumerate(idxs)]
    order = [refs[1], refs[0], refs[2]][:nrefs] if nrefs > 1 else [refs[0]]
    if short_ref:
        # a reference shorter than most queries, with the LOWEST id (it is read first): candidates must still come from all references
        order = order + [worlds.catalogue_ref(9, 'menu', 10, ref_id=1)]
    return dict(refs=order, queries=queries, desc=[pool[i][0] for i in idxs] + (['+short reference id 1'] if short_ref else []))


def same_locus_worlds():
    """pairs of molecules of ONE locus: an exact copy (lower id, processed first) and a variant with a small insertion, so that many
    labels of the two molecules have identical coordinates while their seed peaks differ - state leaking from one query's scoring
    into the next one's (caches keyed by label identity) shows as a wrong score of the second"""
    refs = std_refs()
    out = []
    for ri, s, rev, i, d in ((0, 10, False, 3, 400.0), (1, 30, True, 8, 800.0), (2, 30, False, 3, -400.0), (1, 10, False, 3, 800.0)):
        locus = worlds.window_query(refs[ri], s, 16, rev)[0][2]
        variant = worlds.apply_edit(list(locus), ('indel', i, d))
        out.append(dict(refs=[refs[ri]], queries=[worlds.as_map(4, locus), worlds.as_map(9, variant), worlds.as_map(30, [100.0, 20000.0])],
                        desc=['locus r%d s%d' % (ri, s), 'same locus, indel %s @%d' % (d, i), 'unalignable']))
    return out
