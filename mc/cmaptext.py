"""The harness' own CMAP writer and an independent pure-Python CMAP parser (no pandas, no COMA code)."""

HEADER = ("# CMAP File Version:\t0.1\n# Label Channels:\t1\n"
          "#h CMapId\tContigLength\tNumSites\tSiteID\tLabelChannel\tPosition\tStdDev\tCoverage\tOccurrence%s\n"
          "#f int\tfloat\tint\tint\tint\tfloat\tfloat\tfloat\tfloat%s\n")


def rows(maps, extra_column=False):
    """maps: [(id, contigLength, [positions])]; one text row per label plus the channel-0 end marker."""
    out = []
    ex = '\t9.9' if extra_column else ''
    for mid, length, pos in maps:
        n = len(pos)
        for i, p in enumerate(pos):
            out.append("%d\t%.1f\t%d\t%d\t1\t%.1f\t0.0\t1.0\t1.0%s\n" % (mid, length, n, i + 1, p, ex))
        out.append("%d\t%.1f\t%d\t%d\t0\t%.1f\t0.0\t1.0\t1.0%s\n" % (mid, length, n, n + 1, length, ex))
    return out


def text(maps, extra_column=False, row_order=None):
    rs = rows(maps, extra_column)
    if row_order is not None:
        rs = [rs[i] for i in row_order]
    return (HEADER % (('\tExtra', '\tfloat') if extra_column else ('', ''))) + ''.join(rs)


def parse(txt):
    """Independent parse: {id: (length:int, [positions ascending])} for molecules with >= 1 label; column names from #h."""
    names = None
    table = {}
    for line in txt.splitlines():
        if line.startswith('#h'):
            names = line.split()[1:]
            continue
        if not line.strip() or line.startswith('#'):
            continue
        f = line.rstrip('\n').split('\t')
        rec = dict(zip(names, f))
        mid = int(rec['CMapId'])
        ent = table.setdefault(mid, dict(labels=[], end=None))
        if int(rec['LabelChannel']) == 0:
            if ent['end'] is None:
                ent['end'] = float(rec['Position'])
        else:
            ent['labels'].append(float(rec['Position']))
    return {mid: (int(e['end']), sorted(e['labels'])) for mid, e in table.items() if e['labels']}
