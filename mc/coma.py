"""Thin access layer to the COMA tree under test (imports only; no logic of COMA is copied)."""
from mc import core

core.setup_repo_path()

from src.alignment.aligner import Aligner, AlignerEngine  # noqa: E402
from src.alignment.alignment_position import (AlignedPair, NotAlignedQueryPosition, NotAlignedReferencePosition,  # noqa: E402
                                              ScoredAlignedPair, ScoredNotAlignedPosition, NotAlignedPosition)
from src.alignment.alignment_position_scorer import AlignmentPositionScorer  # noqa: E402
from src.alignment.alignment_results import AlignmentResultRow, AlignmentResults  # noqa: E402
from src.alignment.segment_chainer import SegmentChainer, SequentialityScorer  # noqa: E402
from src.alignment.segment_with_resolved_conflicts import (AlignmentSegmentConflictResolver,  # noqa: E402
                                                           AlignmentSegmentsWithResolvedConflicts)
from src.alignment.segments import AlignmentSegment, EmptyAlignmentSegment  # noqa: E402
from src.alignment.segments_factory import AlignmentSegmentsFactory  # noqa: E402
from src.correlation.optical_map import OpticalMap, PositionWithSiteId  # noqa: E402
from src.correlation.peak import Peak  # noqa: E402


def make_aligner(maxd, sp, dp, su, ms, bs, sj=1, ss=0):
    """Composed exactly as WorkflowCoordinatorFactory.create composes it."""
    return Aligner(AlignmentPositionScorer(sp, dp, su), AlignmentSegmentsFactory(ms, bs), AlignerEngine(maxd),
                   AlignmentSegmentConflictResolver(SegmentChainer(SequentialityScorer(sj, ss))))


def is_pair(p):
    return isinstance(p, AlignedPair)


def unpaired_ref(p):
    return isinstance(p, ScoredNotAlignedPosition) and isinstance(p.position, NotAlignedReferencePosition)


def unpaired_qry(p):
    return isinstance(p, ScoredNotAlignedPosition) and isinstance(p.position, NotAlignedQueryPosition)


def singleton_snapshot():
    """Module-level singletons of COMA that survive between cases; must stay immutable."""
    from src.diagnostic.benchmark_alignment import BenchmarkAlignment
    n = AlignedPair.null
    return (n.reference.siteId, n.reference.position, n.query.siteId, n.query.position, n.queryShift, n.source,
            Peak.null.position, Peak.null.height, Peak.null.score, BenchmarkAlignment.null.queryId,
            tuple(BenchmarkAlignment.null.alignedPairs))
