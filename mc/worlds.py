"""World grammar for the end-to-end (S2) explorations.

A world is JSON: refs [[id, contigLength, [positions]]], queries [[id, contigLength, [positions]]], optional args/mode.
Everything is generated deterministically: catalogue references from named gap families (fixed pseudo-random words,
filtered by window uniqueness), noise-free window queries, and edit scripts over a finite deviation alphabet.
"""
import random

GAP_MENU = [2000, 2600, 3300, 4200, 5100, 6400, 7700, 9100, 10800, 12500, 14700, 17300, 21000, 26000, 33000, 44000]
GAP_1400 = [2800, 4200, 5600, 7000, 9800, 12600, 15400, 21000, 28000]


def _gaps(family, rnd, n):
    if family == 'menu':
        return [rnd.choice(GAP_MENU) for _ in range(n)]
    if family == 'lattice1400':
        return [rnd.choice(GAP_1400) for _ in range(n)]
    if family == 'lattice4200':
        return [rnd.choice([4200, 8400, 12600, 16800, 21000, 29400]) for _ in range(n)]
    if family == 'exp':
        return [float(int(max(2000.0, rnd.expovariate(1 / 9000.0)) * 10) / 10) for _ in range(n)]
    if family == 'uniform':
        return [float(rnd.randrange(20000, 200000)) / 10 for _ in range(n)]
    raise ValueError(family)


def _unique_windows(gaps, w=6, tol=400):
    n = len(gaps)
    wins = [gaps[i:i + w] for i in range(n - w + 1)]
    for i in range(len(wins)):
        for j in range(len(wins)):
            if i < j and all(abs(a - b) <= tol for a, b in zip(wins[i], wins[j])):
                return False
            if i != j and all(abs(a - b) <= tol for a, b in zip(wins[i], wins[j][::-1])):
                return False
    return True


def catalogue_ref(k, family='menu', nlabels=70, ref_id=1, lead=14000, decimals=False, dense_head=False):
    """k-th catalogue reference of a family: (id, contigLength, [positions]).  Deterministic.
    dense_head: the first labels sit 2-3.3 kb apart right at the start of the contig (lead 500), so that interior windows begin
    within the secondary margin of coordinate 0 (the refine step then asks for a reference slice with a negative start)."""
    sub = 0
    while True:
        rnd = random.Random('coma-catalogue/%s/%d/%d/%d' % (family, k, nlabels, sub))
        gaps = _gaps(family, rnd, nlabels - 1)
        mean = sum(gaps) / len(gaps)
        if mean < 9000 and not family.startswith('lattice'):
            f = 9000.0 / mean
            gaps = [float(int(g * f * 10) / 10) for g in gaps]
        if dense_head:
            lead = 500
            gaps[:7] = [2000, 3300, 2600, 4200, 2000, 2600, 3300]      # no window may equal another one or its reverse within 400 bp
            if sum(gaps) / len(gaps) < 9000:
                sub += 1
                continue
        if min(gaps) >= 2000 and _unique_windows(gaps):
            break
        sub += 1
        if sub > 5000:
            raise RuntimeError('catalogue_ref(%r, %r): no admissible gap word found' % (k, family))
    pos = [float(lead)]
    for g in gaps:
        pos.append(round(pos[-1] + g, 1))
    length = pos[-1] + lead + (0.6 if decimals else 0.0)
    return (ref_id, length, pos)


def window_query(ref, start, nlab, reverse, offset=0.0, trailing=0.0, qid=7):
    """noise-free copy of ref labels [start, start+nlab) on a strand; true pairs = [(refLabel, qryLabel)]"""
    w = ref[2][start:start + nlab]
    if not reverse:
        q = [round(p - w[0] + offset, 1) for p in w]
        truth = [(start + 1 + i, i + 1) for i in range(nlab)]
    else:
        q = sorted(round(w[-1] - p + offset, 1) for p in w)
        truth = [(start + 1 + i, nlab - i) for i in range(nlab)]
    return (qid, round(q[-1] + trailing + 1.0, 1), q), truth


# ------------------------------------------------------------------------------------------------
# edit scripts: the deviation alphabet applied to a (zero-based or offset) ascending position list

def apply_edit(q, op):
    """q: ascending list of floats; op: tuple.  Returns the new list or None when the edit does not apply."""
    kind = op[0]
    n = len(q)
    if kind == 'del':
        i = op[1]
        if n <= 3 or not 0 <= i < n:
            return None
        return q[:i] + q[i + 1:]
    if kind == 'ins':
        i = op[1]
        if not 0 <= i < n - 1:
            return None
        return q[:i + 1] + [round(q[i] + (q[i + 1] - q[i]) / 3.0, 1)] + q[i + 1:]
    if kind == 'shift':
        i, d = op[1], op[2]
        if not 0 <= i < n:
            return None
        v = round(q[i] + d, 1)
        lo = q[i - 1] if i > 0 else -1e18
        hi = q[i + 1] if i < n - 1 else 1e18
        if not lo < v < hi or v < 0:
            return None
        return q[:i] + [v] + q[i + 1:]
    if kind == 'indel':
        i, d = op[1], op[2]
        if not 0 <= i < n - 1 or q[i + 1] + d - q[i] < 1000:
            return None
        return q[:i + 1] + [round(p + d, 1) for p in q[i + 1:]]
    if kind == 'stretch':
        return [round(q[0] + (p - q[0]) * op[1], 1) for p in q]
    if kind == 'cut':
        side, k = op[1], op[2]
        if k >= n or k < 2:
            return None
        return q[:k] if side == 'head' else q[n - k:]
    if kind == 'dup':
        i = op[1]
        if not 0 <= i < n:
            return None
        return q[:i + 1] + [q[i]] + q[i + 1:]
    if kind == 'inv':
        # inversion in place: labels i..j keep their span but appear in reverse order (mirrored about the middle of the span)
        i, j = op[1], op[2]
        if not 0 <= i < j < n:
            return None
        lo, hi = q[i], q[j]
        return q[:i] + sorted(round(lo + hi - p, 1) for p in q[i:j + 1]) + q[j + 1:]
    if kind == 'chimera':
        other, gap = op[1], op[2]
        base = q[-1] + gap
        return q + [round(base + (p - other[0]), 1) for p in other]
    raise ValueError(op)


def index_menu(n, full):
    if full:
        return list(range(n))
    return sorted({0, 1, n // 2, n - 2, n - 1} & set(range(n)))


def edit_alphabet(q, full=False, chimeras=()):
    """all single deviations applicable to q (index menu: every index when full, a 5-point menu otherwise)"""
    n = len(q)
    ops = []
    idx = index_menu(n, full)
    for i in idx:
        ops.append(('del', i))
    for i in idx:
        if i < n - 1:
            ops.append(('ins', i))
    for i in idx:
        for d in (150, -150, 600, -600):
            ops.append(('shift', i, d))
    for i in idx:
        if i < n - 1:
            for d in (4200, -4200, 28000):
                ops.append(('indel', i, d))
    ops += [('stretch', 0.97), ('stretch', 1.04)]
    for k in (7, 10):
        ops += [('cut', 'head', k), ('cut', 'tail', k)]
    for i in idx:
        ops.append(('dup', i))
    if n >= 18:
        ops += [('inv', n // 3, 2 * n // 3), ('inv', 2, n // 2), ('inv', n // 2, n - 3)]
    for other, gap in chimeras:
        ops.append(('chimera', list(other), gap))
    return ops


def scripts(q, depth, full=False, chimeras=()):
    """all edit scripts with exactly `depth` deviations (depth 0: the identity); yields (script, positions)"""
    if depth == 0:
        yield [], list(q)
        return
    for op in edit_alphabet(q, full, chimeras):
        q1 = apply_edit(q, op)
        if q1 is None:
            continue
        if depth == 1:
            yield [op], q1
        else:
            for op2 in edit_alphabet(q1, False, ()):
                q2 = apply_edit(q1, op2)
                if q2 is not None:
                    yield [op, op2], q2


def as_map(qid, positions, trailing=0.0, offset=0.0):
    pos = [round(p + offset, 1) for p in positions]
    return (qid, round(pos[-1] + trailing + 1.0, 1), pos)


def jsonable(world):
    return dict(world, refs=[[m[0], m[1], list(m[2])] for m in world['refs']],
                queries=[[m[0], m[1], list(m[2])] for m in world['queries']])
