"""Bounded exhaustive exploration (model checking) harness for mikoar/coma.

See /verif/DESIGN.md.  Everything here runs under /venv/bin/python and executes the
COMA sources found under $COMA_REPO (default /repo) - never a copy kept inside /verif.
"""
