"""Controlled process pool (S3): replaces the name `Pool` in module p_tqdm.p_tqdm.

Semantics reproduced (each re-measured against the real pathos pool by mc.props.c09's conformance probe):
 1. workers are real processes forked when the map call starts; they inherit the parent's state at that moment and the parent
    never sees their mutations;
 2. the mapped function is dill-pickled per task (instance state never flows from task to task);
 3. process-global state persists inside a worker across the tasks it executes;
 4. imap delivers results in submission order whatever the completion order, uimap in completion order.
The schedule - which worker executes which task, in which global order - is an explicit argument (SCHEDULES, one per map call).
Workers share no memory and write no files, so a task is the atomic step.
"""
import os
import struct
import traceback

import dill

SCHEDULES = []      # one dict per upcoming map call: assign=[worker per task], order=[task indices in execution/completion order]
CALLS = []          # log of the map calls actually made
_PARENT_FDS = []


class _Worker:
    def __init__(self):
        pr, cw = os.pipe()
        cr, pw = os.pipe()
        pid = os.fork()
        if pid == 0:
            os.close(pw)
            os.close(pr)
            for fd in list(_PARENT_FDS):     # siblings' parent-side pipe ends (otherwise waitpid deadlocks)
                try:
                    os.close(fd)
                except OSError:
                    pass
            try:
                rf = os.fdopen(cr, 'rb')
                wf = os.fdopen(cw, 'wb')
                while True:
                    hdr = rf.read(8)
                    if len(hdr) < 8:
                        break
                    n = struct.unpack('<Q', hdr)[0]
                    func, args = dill.loads(rf.read(n))
                    try:
                        res = ('ok', func(*args))
                    except BaseException as e:
                        res = ('err', repr(e) + '\n' + traceback.format_exc())
                    b = dill.dumps(res)
                    wf.write(struct.pack('<Q', len(b)) + b)
                    wf.flush()
            finally:
                os._exit(0)
        os.close(cr)
        os.close(cw)
        _PARENT_FDS.extend([pr, pw])
        self.fds = [pr, pw]
        self.pid = pid
        self.rf = os.fdopen(pr, 'rb')
        self.wf = os.fdopen(pw, 'wb')

    def call(self, func, args):
        b = dill.dumps((func, args))
        self.wf.write(struct.pack('<Q', len(b)) + b)
        self.wf.flush()
        n = struct.unpack('<Q', self.rf.read(8))[0]
        st, val = dill.loads(self.rf.read(n))
        if st == 'err':
            raise WorkerError(val)
        return val

    def close(self):
        try:
            self.wf.close()
            self.rf.close()
        finally:
            os.waitpid(self.pid, 0)
            for fd in self.fds:
                if fd in _PARENT_FDS:
                    _PARENT_FDS.remove(fd)


class WorkerError(RuntimeError):
    pass


class ControlledPool:
    def __init__(self, nodes=None, *a, **k):
        self.nodes = nodes

    def _run(self, function, iterables, ordered):
        tasks = list(zip(*iterables))
        sched = SCHEDULES.pop(0) if SCHEDULES else None
        n = len(tasks)
        assign = list(sched['assign']) if sched and sched.get('assign') is not None else [0] * n
        order = list(sched['order']) if sched and sched.get('order') else list(range(n))
        fits = len(assign) == n and sorted(order) == list(range(n))
        if not fits:
            # the tree under test cut the work into a different number of tasks than the schedule was written for (e.g. batching that
            # depends on --cpus): keep the schedule's shape as far as possible instead of failing - the output comparison decides
            assign = [assign[i % len(assign)] if assign else 0 for i in range(n)]
            order = [i for i in order if i < n] + [i for i in range(n) if i not in order]
        CALLS.append(dict(n=n, nodes=self.nodes, assign=assign, order=order, kind='imap' if ordered else 'uimap', fits=fits))
        workers = {w: _Worker() for w in sorted(set(assign))}
        results = {}
        try:
            for i in order:
                results[i] = workers[assign[i]].call(function, tasks[i])
        finally:
            for w in workers.values():
                w.close()
        for i in (range(n) if ordered else order):
            yield results[i]

    def imap(self, function, *iterables, **kw):
        return self._run(function, iterables, True)

    def uimap(self, function, *iterables, **kw):
        return self._run(function, iterables, False)

    def map(self, function, *iterables, **kw):
        return list(self._run(function, iterables, True))

    def clear(self):
        pass


def install():
    import p_tqdm.p_tqdm as m
    assert hasattr(m, 'Pool'), 'pool seam p_tqdm.p_tqdm.Pool not found'
    m.Pool = ControlledPool


def partitions(n, maxblocks):
    """all functions tasks->workers up to worker renaming = set partitions of n tasks into <= maxblocks blocks"""
    def rec(i, assign, used):
        if i == n:
            yield list(assign)
            return
        for w in range(min(used + 1, maxblocks)):
            assign.append(w)
            yield from rec(i + 1, assign, max(used, w + 1))
            assign.pop()
    yield from rec(0, [], 0)
