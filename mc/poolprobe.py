"""Conformance probe binding mc.cpool.ControlledPool (the model of the pool) to the real pathos pool behind p_tqdm.

Run as a script in a fresh interpreter: maps a probe object through the REAL pool, derives the task->worker assignment that
the OS happened to produce from the worker pids, then maps the same probe through the controlled pool with that assignment
forced, and compares the per-task observation vectors (instance counter, per-process counter, inherited parent mark, delivery
order).  Prints one JSON line.
"""
import json
import os
import sys
import time

G = {'n': 0, 'mark': None}


class Probe:
    def __init__(self):
        self.k = 0

    def f(self, x):
        self.k += 1
        G['n'] += 1
        time.sleep(0.03)
        return (x, os.getpid(), self.k, G['n'], G['mark'])

    def run(self, cpus, n):
        from p_tqdm import p_imap
        return list(p_imap(lambda x: self.f(x), list(range(n)), num_cpus=cpus, disable=True))


def observe(out):
    pids = []
    for o in out:
        if o[1] not in pids:
            pids.append(o[1])
    assign = [pids.index(o[1]) for o in out]
    return assign, [(o[0], o[2], o[3], o[4]) for o in out]


def main():
    import mc.poolprobe as me        # make sure the class is pickled by reference to an importable module
    from mc import cpool
    import p_tqdm.p_tqdm as ptq
    real_pool = ptq.Pool
    res = dict(ok=True, notes=[])
    for cpus, n in ((1, 5), (3, 8), (4, 6)):
        p = me.Probe()
        me.G['mark'] = 'set-before-map-%d' % cpus
        ptq.Pool = real_pool
        real = p.run(cpus, n)
        again = p.run(cpus, n) if cpus == 1 else None
        parent_clean = (p.k == 0 and me.G['n'] == 0)
        assign, vec = observe(real)
        cpool.install()
        cpool.SCHEDULES[:] = [dict(assign=assign)]
        ctl = p.run(cpus, n)
        assign2, vec2 = observe(ctl)
        item = dict(cpus=cpus, n=n, assignment=assign, real=vec, controlled=vec2, parent_clean=parent_clean,
                    controlled_parent_clean=(p.k == 0 and me.G['n'] == 0), same_assignment=assign == assign2,
                    pids_differ_from_parent=all(o[1] != os.getpid() for o in real + ctl))
        if again is not None:
            item['fresh_workers_per_map_call'] = observe(again)[1] == vec
            cpool.SCHEDULES[:] = [dict(assign=assign)]
            item['controlled_fresh_workers_per_map_call'] = observe(p.run(cpus, n))[1] == vec2
        item['agree'] = (vec == vec2 and parent_clean and item['controlled_parent_clean'] and item['same_assignment']
                         and item['pids_differ_from_parent'] and item.get('fresh_workers_per_map_call', True)
                         and item.get('controlled_fresh_workers_per_map_call', True))
        res['ok'] = res['ok'] and item['agree']
        res.setdefault('runs', []).append(item)
    print('POOLPROBE ' + json.dumps(res))
    return 0 if res['ok'] else 1


if __name__ == '__main__':
    sys.exit(main())
