"""Explorer core: layers -> blocks -> cases, sharded over forked workers.

A *layer* is one finite, explicitly bounded space of behaviours.  It is cut into *blocks*
(contiguous slices of the enumeration); every block enumerates all of its cases, executes
each on the real COMA code and evaluates the oracle.  The merged verdict does not depend on
the number of worker processes: results are merged in block order and the reported
violation of a class is the one with the lowest (layer, block, sequence) index.
"""
from __future__ import annotations

import collections
import importlib
import json
import hashlib
import multiprocessing
import os
import shutil
import subprocess
import sys
import tempfile
import time
import traceback

import numpy as np

VERIF = os.path.dirname(os.path.dirname(os.path.abspath(__file__)))
REPO = os.path.abspath(os.environ.get('COMA_REPO', '/repo'))
PYTHON = '/venv/bin/python'
NPROC = int(os.environ.get('VERIF_PROCS', '0')) or min(16, os.cpu_count() or 1)
MASK = (1 << 64) - 1


def setup_repo_path():
    """Make `import src...` and the flat `sv` modules resolve to the tree under test."""
    for p in (os.path.join(REPO, 'sv'), REPO):
        while p in sys.path:
            sys.path.remove(p)
        sys.path.insert(0, p)
    os.environ.setdefault('COMA_VERIF', '1')


def repo_head():
    try:
        return subprocess.run(['git', '-C', REPO, 'rev-parse', '--short', 'HEAD'], capture_output=True,
                              text=True, timeout=20).stdout.strip()
    except Exception:
        return 'unknown'


# ------------------------------------------------------------------------------------------------
# scratch space (removed on exit)

_SCRATCH = None


def scratch_dir():
    global _SCRATCH
    if _SCRATCH is None or _SCRATCH[0] != os.getpid():
        base = os.environ.get('VERIF_TMPDIR') or ('/dev/shm' if os.path.isdir('/dev/shm') and os.access('/dev/shm', os.W_OK)
                                                  else tempfile.gettempdir())
        d = tempfile.mkdtemp(prefix='comaverif-%d-' % os.getpid(), dir=base)
        _SCRATCH = (os.getpid(), d)
        import atexit
        atexit.register(_cleanup, os.getpid(), d)
    return _SCRATCH[1]


def _cleanup(pid, d):
    if os.getpid() == pid:
        shutil.rmtree(d, ignore_errors=True)


# ------------------------------------------------------------------------------------------------

class Acc:
    """Per-block accumulator; merged by the parent in block order."""
    KEEP_PER_CLASS = 2

    def __init__(self, layer: str, block: int):
        self.layer = layer
        self.block = block
        self.evals = 0
        self.transitions = 0
        self.states = set()
        self.nontrivial = set()
        self.classes = collections.Counter()
        self.violations = []
        self.nviol = 0
        self._perclass = collections.Counter()
        self.first = None
        self.last = None
        self.seq = 0

    def state(self, key):
        self.states.add(hash(key) & MASK)

    def nontriv(self, key):
        self.nontrivial.add(hash(key) & MASK)

    def sample(self, case):
        """case: a zero-argument callable or a JSON-able object describing the case just run."""
        if self.first is None:
            self.first = case() if callable(case) else case
        self.last = case

    def viol(self, symptom: str, case, detail='', locus: str = '', sig: dict | None = None):
        self.nviol += 1
        k = (symptom, locus, json.dumps(sig or {}, sort_keys=True))
        self._perclass[k] += 1
        if self._perclass[k] <= self.KEEP_PER_CLASS:
            self.violations.append(dict(layer=self.layer, block=self.block, seq=self.seq, symptom=symptom,
                                        locus=locus, sig=sig or {}, detail=str(detail)[:1500],
                                        case=case() if callable(case) else case))

    def pack(self):
        last = self.last() if callable(self.last) else self.last
        return dict(block=self.block, evals=self.evals, transitions=self.transitions,
                    states=np.fromiter(self.states, dtype=np.uint64, count=len(self.states)),
                    nontrivial=np.fromiter(self.nontrivial, dtype=np.uint64, count=len(self.nontrivial)),
                    classes=dict(self.classes), violations=self.violations, nviol=self.nviol,
                    perclass=dict(self._perclass), first=self.first, last=last)


class Layer:
    """One finite space.  Subclasses define nblocks/run_block/replay and the descriptive fields."""
    name = '?'
    rule = ''
    optional = False        # thorough-tier extension that may be cut by the time cap
    bounds: dict = {}

    def nblocks(self) -> int:
        raise NotImplementedError

    def run_block(self, b: int, acc: Acc):
        raise NotImplementedError

    def replay(self, case) -> list:
        """Re-execute one case; return a list of (symptom, detail, locus, sig) tuples."""
        raise NotImplementedError

    def prepare(self):
        """Parent-side, before forking (e.g. pre-scan that selects worlds)."""

    def finish(self, merged: dict):
        """Parent-side post-processing hook (may add keys to the evidence of the layer)."""



def guarded(describe):
    """Decorator for per-case check functions: an exception that escapes from COMA code (a frame under the tree under test)
    is a violation of the case ("component raised"), not a harness error.  `describe(*args)` rebuilds the JSON case."""
    def deco(fn):
        def wrapper(*args, **kw):
            try:
                return fn(*args, **kw)
            except Exception as e:
                tb = traceback.extract_tb(e.__traceback__)
                frames = [fr for fr in tb if os.path.abspath(fr.filename).startswith(REPO + os.sep)]
                if not frames:
                    raise
                where = '%s:%d' % (os.path.relpath(frames[-1].filename, REPO), frames[-1].lineno)
                sym = 'exception:' + type(e).__name__
                detail = '%s: %s @ %s' % (type(e).__name__, str(e)[:300], where)
                acc = next((a for a in args if isinstance(a, Acc)), None)
                if acc is not None:
                    acc.evals += 1
                    acc.classes['exception-in-code-under-test'] += 1
                    acc.viol(sym, describe(*args, **kw), detail, where, {})
                return [(sym, detail, where, {})]
        wrapper.__wrapped__ = fn
        return wrapper
    return deco


_LAYERS: list = []


def _do_block(li, b):
    layer = _LAYERS[li]
    acc = Acc(layer.name, b)
    try:
        layer.run_block(b, acc)
    except BaseException:
        return dict(block=b, harness_error=traceback.format_exc())
    return acc.pack()


def run_isolated(func, *args):
    """Run func(*args) in a forked child and return its (picklable) result.  COMA code never executes in the calling process,
    so every block / pre-scan starts from the same pristine post-import state and a replay in a fresh interpreter sees the
    same state as the explorer did (module-level state of COMA cannot leak from one block into the next)."""
    import pickle
    r, w = os.pipe()
    pid = os.fork()
    if pid == 0:
        code = 0
        try:
            os.close(r)
            try:
                data = pickle.dumps(('ok', func(*args)), protocol=4)
            except BaseException:
                data = pickle.dumps(('err', traceback.format_exc()), protocol=4)
            with os.fdopen(w, 'wb') as f:
                f.write(data)
        except BaseException:
            code = 1
        finally:
            if _SCRATCH is not None and _SCRATCH[0] == os.getpid():
                shutil.rmtree(_SCRATCH[1], ignore_errors=True)
            os._exit(code)
    os.close(w)
    try:
        with os.fdopen(r, 'rb') as f:
            data = f.read()
    except BaseException:          # e.g. the caller's alarm fired while the child hangs: do not leave it behind
        try:
            os.kill(pid, 9)
        except OSError:
            pass
        os.waitpid(pid, 0)
        raise
    os.waitpid(pid, 0)
    if not data:
        return ('err', 'isolated child died without a result')
    return pickle.loads(data)


def _worker(task):
    li, b = task
    st, res = run_isolated(_do_block, li, b)
    if st != 'ok':
        return dict(block=b, harness_error=res)
    return res


def run_layer(li: int, layer: Layer, deadline: float | None):
    n = layer.nblocks()
    t0 = time.time()
    merged = dict(name=layer.name, blocks=n, blocks_done=0, evals=0, transitions=0, classes=collections.Counter(),
                  violations=[], nviol=0, perclass=collections.Counter(), first=None, last=None, completed=False,
                  harness_errors=[])
    st_chunks, nt_chunks = [], []
    procs = max(1, min(NPROC, n))
    ctx = multiprocessing.get_context('fork')
    pool = ctx.Pool(procs)
    try:
        it = pool.imap(_worker, [(li, b) for b in range(n)], chunksize=1)
        for _ in range(n):
            while True:
                try:
                    timeout = None if deadline is None else max(0.05, min(5.0, deadline - time.time()))
                    res = it.next(timeout)
                    break
                except multiprocessing.TimeoutError:
                    if deadline is not None and time.time() >= deadline:
                        res = None
                        break
            if res is None:
                break
            if 'harness_error' in res:
                merged['harness_errors'].append(res['harness_error'])
                break
            merged['blocks_done'] += 1
            merged['evals'] += res['evals']
            merged['transitions'] += res['transitions']
            merged['classes'].update(res['classes'])
            merged['violations'].extend(res['violations'])
            merged['nviol'] += res['nviol']
            merged['perclass'].update(res['perclass'])
            st_chunks.append(res['states'])
            nt_chunks.append(res['nontrivial'])
            if len(st_chunks) > 64:
                st_chunks = [np.unique(np.concatenate(st_chunks))]
                nt_chunks = [np.unique(np.concatenate(nt_chunks))]
            if merged['first'] is None and res['first'] is not None:
                merged['first'] = res['first']
            if res['last'] is not None:
                merged['last'] = res['last']
    finally:
        pool.terminate()
        pool.join()
    merged['completed'] = merged['blocks_done'] == n and not merged['harness_errors']
    merged['states'] = int(np.unique(np.concatenate(st_chunks)).size) if st_chunks else 0
    merged['nontrivial'] = int(np.unique(np.concatenate(nt_chunks)).size) if nt_chunks else 0
    merged['wall_s'] = round(time.time() - t0, 2)
    merged['classes'] = dict(merged['classes'])
    return merged


# ------------------------------------------------------------------------------------------------
# findings

def load_findings():
    path = os.path.join(VERIF, 'known_findings.json')
    if not os.path.exists(path):
        return dict(findings=[], fixed=[])
    with open(path) as f:
        return json.load(f)


def match_finding(pid: str, v: dict, findings: list):
    for f in findings:
        if f.get('property') != pid:
            continue
        if f.get('layer') and f['layer'] != v['layer']:
            continue
        if f.get('symptom') and f['symptom'] != v['symptom']:
            continue
        if f.get('locus') and f['locus'] != v.get('locus'):
            continue
        if any(v.get('sig', {}).get(k) != val for k, val in (f.get('match') or {}).items()):
            continue
        return f
    return None


# ------------------------------------------------------------------------------------------------

def load_property(pid: str):
    setup_repo_path()
    return importlib.import_module('mc.props.' + pid.lower())


def write_replay(pid, tier, seed, v, block_mode=False):
    rdir = os.environ.get('VERIF_REPLAY_DIR') or os.path.join(VERIF, 'replays')
    os.makedirs(rdir, exist_ok=True)
    body = dict(property=pid, tier=tier, seed=seed, layer=v['layer'], symptom=v['symptom'], locus=v.get('locus', ''),
                sig=v.get('sig', {}), detail=v.get('detail', ''), case=v['case'], repo_head=repo_head(), block=v.get('block'),
                seq=v.get('seq'), block_replay=bool(block_mode))
    digest = hashlib.sha1(json.dumps([pid, v['layer'], v['symptom'], v['case'], bool(block_mode)], sort_keys=True, default=str)
                          .encode()).hexdigest()[:12]
    path = os.path.join(rdir, '%s-%s.json' % (pid, digest))
    with open(path, 'w') as f:
        json.dump(body, f, indent=1, default=str)
    test = os.path.join(rdir, 'test_%s_%s.py' % (pid.lower(), digest))
    with open(test, 'w') as f:
        f.write("import subprocess\n\ndef test_replay():\n"
                "    assert subprocess.run(['%s/check', '%s', '--replay', '%s']).returncode == 0\n"
                % (VERIF, pid, path))
    return path


def replay_file(path: str):
    """Run the single case of a replay file in this (fresh) interpreter; returns list of symptoms."""
    with open(path) as f:
        body = json.load(f)
    mod = load_property(body['property'])
    layers = mod.layers(body.get('tier', 'quick'), int(body.get('seed', 0)))
    layer = next((l for l in layers if l.name == body['layer']), None)
    if layer is None:
        raise SystemExit('harness error: layer %r not found' % body['layer'])
    if body.get('block_replay'):
        # history-dependent violation: the case only fails after the cases that precede it in its block (state kept by COMA between
        # calls inside one process).  Replay = the whole block, from a pristine process.
        layer.prepare()
        global _LAYERS
        _LAYERS = layers
        st, res = run_isolated(_do_block, layers.index(layer), body['block'])
        if st != 'ok' or 'harness_error' in res:
            raise SystemExit('harness error while replaying block: %s' % (res if st != 'ok' else res['harness_error']))
        return body, [(v['symptom'], v['detail'], v.get('locus', ''), v.get('sig', {})) for v in res['violations']
                      if v['symptom'] == body['symptom']]
    return body, layer.replay(body['case'])


def confirm_in_fresh_interpreter(pid, path, symptom):
    """The failing case must fail identically in a fresh interpreter (no explorer, no siblings)."""
    env = dict(os.environ, PYTHONHASHSEED='0')
    out = subprocess.run([PYTHON, '-m', 'mc.cli', pid, '--replay', path, '--quiet'], cwd=VERIF, env=env,
                         capture_output=True, text=True, timeout=900)
    for line in out.stdout.splitlines():
        if line.startswith('REPLAY-SYMPTOMS '):
            return symptom in json.loads(line[len('REPLAY-SYMPTOMS '):]), out.stdout + out.stderr
    return False, out.stdout + out.stderr


def run_property(pid: str, tier: str, seed: int) -> int:
    global _LAYERS
    t0 = time.time()
    mod = load_property(pid)
    layers = mod.layers(tier, seed)
    only = os.environ.get('VERIF_LAYERS')        # debugging aid: run only layers whose name contains this substring
    if only:
        layers = [l for l in layers if only in l.name]
    _LAYERS = layers
    cap = float(os.environ.get('VERIF_TIME_CAP', '0') or 0) or (getattr(mod, 'THOROUGH_CAP_S', 1500.0) if tier == 'thorough' else 0)
    deadline_all = (t0 + cap) if cap else None
    results = []
    time_cap_hit = False
    for li, layer in enumerate(layers):
        if layer.optional and deadline_all is not None and time.time() > deadline_all - 5:
            results.append(dict(name=layer.name, skipped=True, completed=False, blocks=0, blocks_done=0, evals=0, transitions=0,
                                classes={}, violations=[], nviol=0, perclass={}, states=0, nontrivial=0, first=None, last=None,
                                wall_s=0, harness_errors=[]))
            time_cap_hit = True
            continue
        layer.prepare()
        m = run_layer(li, layer, deadline_all if layer.optional else None)
        layer.finish(m)
        if not m['completed'] and not m['harness_errors']:
            time_cap_hit = True
        results.append(m)
        print('[%s/%s] layer %-6s blocks %d/%d evals %d states %d transitions %d nontrivial %d violations %d  %.1fs'
              % (pid, tier, layer.name, m['blocks_done'], m['blocks'], m['evals'], m['states'], m['transitions'],
                 m['nontrivial'], m['nviol'], m['wall_s']), flush=True)
        if m['classes']:
            print('         classes: ' + ', '.join('%s=%s' % kv for kv in sorted(m['classes'].items())), flush=True)

    herr = [e for m in results for e in m['harness_errors']]
    if herr:
        print('HARNESS-ERROR %s\n%s' % (pid, herr[0]), flush=True)
        _write_evidence(pid, tier, seed, mod, layers, results, t0, 0, [], time_cap_hit, harness_error=herr[0][-800:])
        return 3

    known = load_findings()
    allv = [v for m in results for v in m['violations']]
    order = {l.name: i for i, l in enumerate(layers)}
    allv.sort(key=lambda v: (order[v['layer']], v['block'], v['seq']))
    matched = collections.OrderedDict()
    fresh = collections.OrderedDict()
    for v in allv:
        f = match_finding(pid, v, known.get('findings', []))
        if f is not None:
            matched.setdefault(f['id'], (f, v))
        else:
            fresh.setdefault((v['layer'], v['symptom'], v.get('locus', ''), json.dumps(v.get('sig', {}), sort_keys=True)), v)
    for fid, (f, v) in matched.items():
        print('KNOWN-FINDING: property=%s %s %s' % (pid, fid, f.get('what', '')), flush=True)
    rc = 0
    reported = []
    for key, v in list(fresh.items())[:6]:
        path = write_replay(pid, tier, seed, v)
        ok, log = confirm_in_fresh_interpreter(pid, path, v['symptom'])
        if not ok:
            # not reproducible alone: is it reproducible as "this block, run from a pristine process"?  Then the case depends on the
            # calls made before it in the same process - still a violation (of a sequence of operations), reported as such.
            path = write_replay(pid, tier, seed, v, block_mode=True)
            ok, log = confirm_in_fresh_interpreter(pid, path, v['symptom'])
            if ok:
                v = dict(v, sig=dict(v.get('sig', {}), history_dependent=True))
                print('  note: the violation below does not occur when its case is run alone; it needs the cases that precede it in '
                      'block %s of layer %s (state kept between calls in one process); the replay file re-runs that block' % (v.get('block'), v['layer']),
                      flush=True)
        if not ok:
            print('HARNESS-ERROR %s: violation %s of layer %s did not reproduce in a fresh interpreter (%s)\n%s'
                  % (pid, v['symptom'], v['layer'], path, log[-1500:]), flush=True)
            _write_evidence(pid, tier, seed, mod, layers, results, t0, 0, [], time_cap_hit,
                            harness_error='non-reproducible violation ' + v['symptom'])
            return 3
        print('  violation layer=%s symptom=%s locus=%s sig=%s\n    case=%s\n    detail=%s'
              % (v['layer'], v['symptom'], v.get('locus', ''), v.get('sig', {}), json.dumps(v['case'], default=str)[:600],
                 v.get('detail', '')[:600]), flush=True)
        print('VIOLATION property=%s replay=%s' % (pid, path), flush=True)
        reported.append(dict(layer=v['layer'], symptom=v['symptom'], locus=v.get('locus', ''), replay=path))
        rc = 1
    _write_evidence(pid, tier, seed, mod, layers, results, t0, len(fresh), reported, time_cap_hit,
                    known=[fid for fid in matched])
    return rc


def _write_evidence(pid, tier, seed, mod, layers, results, t0, nviol, reported, time_cap_hit, known=(), harness_error=None):
    evals = sum(m['evals'] for m in results)
    samples = []
    for m in results:
        for s in (m.get('first'), m.get('last')):
            if s is not None and len(samples) < 8:
                samples.append(dict(layer=m['name'], case=s))
    completed_all = all(m['completed'] for m in results)
    mandatory_done = all(m['completed'] for m, l in zip(results, layers) if not l.optional)
    nontriv = sum(m['nontrivial'] for m in results)
    cov = dict(
        states=sum(m['states'] for m in results),
        transitions=sum(m['transitions'] for m in results),
        traces_validated_against_impl=evals,
        evaluations=evals,
        distinct_nontrivial=nontriv,
        rule=getattr(mod, 'RULE', ''),
        samples=samples or [dict(note='no case executed')],
        exhaustive=bool(completed_all),
        mandatory_layers_exhaustive=bool(mandatory_done),
        time_cap_hit=bool(time_cap_hit),
        vacuous=bool(nontriv == 0),
        procs=NPROC,
        repo=REPO, repo_head=repo_head(),
        layers=[dict(name=l.name, rule=l.rule, bounds=l.bounds, optional=l.optional, blocks=m['blocks'],
                     blocks_done=m['blocks_done'], completed=m['completed'], evaluations=m['evals'], states=m['states'],
                     transitions=m['transitions'], distinct_nontrivial=m['nontrivial'], outcome_classes=m['classes'],
                     violations_seen=m['nviol'], violation_classes={'|'.join(map(str, k)) if isinstance(k, tuple) else str(k): c
                                                                    for k, c in m['perclass'].items()},
                     extra=m.get('extra', {}), wall_s=m['wall_s'])
                for l, m in zip(layers, results)],
        known_findings_matched=list(known),
        reported_violations=reported,
    )
    if harness_error:
        cov['harness_error'] = harness_error
    ev = dict(property_id=pid, tier=tier, seed=seed, level='model_checking', coverage=cov,
              assumptions=list(getattr(mod, 'ASSUMPTIONS', [])), wall_s=round(time.time() - t0, 2), violations=int(nviol))
    edir = os.environ.get('VERIF_EVIDENCE_DIR') or os.path.join(VERIF, 'evidence')
    os.makedirs(edir, exist_ok=True)
    path = os.path.join(edir, pid + '.json')
    tmp = path + '.tmp'
    with open(tmp, 'w') as f:
        json.dump(ev, f, indent=1, default=_jsonable)
    os.replace(tmp, path)


def _jsonable(o):
    if isinstance(o, (np.integer,)):
        return int(o)
    if isinstance(o, (np.floating,)):
        return float(o)
    if isinstance(o, (set, frozenset, tuple)):
        return list(o)
    return str(o)
