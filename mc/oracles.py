"""Reference predicates written from the property statements; share no code with COMA."""
import re


def matching_problems(pairs, nref, qlo, qhi, reverse):
    """pairs: [(refLabel, qryLabel)] in listed order.  Returns names of the clauses of C01 that fail."""
    bad = []
    rs = [p[0] for p in pairs]
    qs = [p[1] for p in pairs]
    if any(not (1 <= r <= nref) for r in rs):
        bad.append('reference-label-does-not-exist')
    if any(not (qlo <= q <= qhi) for q in qs):
        bad.append('query-label-does-not-exist')
    if len(set(rs)) != len(rs):
        bad.append('reference-label-used-twice')
    if len(set(qs)) != len(qs):
        bad.append('query-label-used-twice')
    if any(not a < b for a, b in zip(rs, rs[1:])):
        bad.append('reference-not-strictly-ascending')
    if reverse:
        if any(not a > b for a, b in zip(qs, qs[1:])):
            bad.append('query-not-strictly-decreasing')
    else:
        if any(not a < b for a, b in zip(qs, qs[1:])):
            bad.append('query-not-strictly-increasing')
    return bad


_RUN = re.compile(r'(\d+)([MDI])')


def hitenum_decode(hit, first, reverse):
    """Replay: cursor starts just before the first pair; M advances both and emits, D advances reference, I advances query."""
    step = -1 if reverse else 1
    r, q = first[0] - 1, first[1] - step
    out = []
    for cnt, op in _RUN.findall(hit):
        for _ in range(int(cnt)):
            if op == 'M':
                r += 1
                q += step
                out.append((r, q))
            elif op == 'D':
                r += 1
            else:
                q += step
    return out


def hitenum_problems(hit, pairs, reverse):
    bad = []
    if not isinstance(hit, str):
        return ['hitenum-not-a-string']
    if not pairs:
        return bad
    if hit == '':
        return ['hitenum-empty-with-pairs']
    if not re.fullmatch(r'(\d+[MDI])+', hit):
        return ['hitenum-grammar']
    runs = _RUN.findall(hit)
    if any(int(c) < 1 for c, _ in runs):
        bad.append('hitenum-zero-count')
    if runs[0][1] != 'M' or runs[-1][1] != 'M':
        bad.append('hitenum-first-last-not-M')
    if any(a[1] == b[1] for a, b in zip(runs, runs[1:])):
        bad.append('hitenum-adjacent-runs-equal')
    if hitenum_decode(hit, pairs[0], reverse) != list(pairs):
        bad.append('hitenum-decode-differs')
    return bad


def parse_pairs(s):
    s = s.strip()
    return [tuple(int(x) for x in t.split(',')) for t in s.strip('()').split(')(')] if s else []
