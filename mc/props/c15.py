"""C15 - conflict resolution only trims inside the overlap and leaves no shared label.

S1: segment lists are produced by the real engine + scorer + factory from lattice worlds (exact, stretched, indel, repeat, deleted /
inserted label) under every ladder of 2..4 (thorough 5) nearby seed peaks; then AlignmentSegmentConflictResolver.resolveConflicts
is run on the whole list and checkForConflicts(...).resolveConflict() on every ordered pair.
"""
import itertools

from mc import core
from mc.coma import make_aligner, OpticalMap, Peak, is_pair

RULE = ("lattice worlds x maxDistance {4,6} x strand variants x every ladder of k seed peaks on the half-step grid with strides 1..3; "
        "non-trivial = list has >= 2 non-empty segments and at least one segment was trimmed or dropped; distinct by "
        "(world, maxDistance, strand, ladder)")
ASSUMPTIONS = ["scoring (100, 1, -25), thresholds (100, 120) / (60, 120), join scorer (1, 0), (0, 0), (0.5, 1): the lattice analogue of the defaults and of legal -sj / -ss values",
               "sub-run and retention clauses use object identity of the position objects (nothing is copied by COMA at this seam)"]


def base_worlds():
    base = [0, 10, 20, 40, 50, 70, 80, 110]
    yield 'exact', base, [0, 10, 30, 40, 60]
    yield 'stretch', base, [0, 11, 33, 44, 66]
    yield 'indel', base, [0, 10, 30, 55, 75, 85]
    yield 'repeat', [0, 10, 20, 30, 40, 50, 60, 70, 80], [0, 10, 20, 30]
    yield 'del', base, [0, 10, 40, 60, 70]
    yield 'ins', base, [0, 4, 10, 30, 33, 40, 60]
    yield 'jitter', base, [0, 13, 30, 40, 57, 60, 90]
    yield 'jitter-indel', base, [0, 10, 33, 40, 65, 75, 104]


def derived_worlds():
    refs = [[0, 10, 20, 40, 50, 70, 80, 110, 120, 150], [0, 20, 30, 60, 70, 80, 110, 130, 140], [0, 10, 20, 30, 40, 50, 60, 70, 80, 90],
            [0, 30, 40, 50, 90, 100, 120, 150, 160]]
    for ri, ref in enumerate(refs):
        for s in range(0, len(ref) - 5):
            w = [p - ref[s] for p in ref[s:s + 6]]
            yield 'r%d-w%d-exact' % (ri, s), ref, w
            yield 'r%d-w%d-stretch11' % (ri, s), ref, [p * 11 // 10 for p in w]
            yield 'r%d-w%d-stretch9' % (ri, s), ref, [p * 9 // 10 for p in w]
            for i in range(1, len(w) - 1):
                yield 'r%d-w%d-indel+15@%d' % (ri, s, i), ref, w[:i] + [p + 15 for p in w[i:]]
                if w[i] - w[i - 1] > 5:
                    yield 'r%d-w%d-indel-5@%d' % (ri, s, i), ref, w[:i] + [p - 5 for p in w[i:]]
                yield 'r%d-w%d-del@%d' % (ri, s, i), ref, w[:i] + w[i + 1:]
                yield 'r%d-w%d-ins@%d' % (ri, s, i), ref, sorted(w + [w[i] - 4])
                # one displaced label: paired under one seed peak, unpaired under a neighbouring one
                for d in (3, -3, 4):
                    yield 'r%d-w%d-jit%+d@%d' % (ri, s, d, i), ref, w[:i] + [w[i] + d] + w[i + 1:]
                # stretched AND one displaced label: the merge point of two overlapping segments falls inside the overlap while
                # one sub-run has an unpaired position the other one pairs
                for d in (3, -3):
                    st = [p * 11 // 10 for p in w]
                    yield 'r%d-w%d-stretch11+jit%+d@%d' % (ri, s, d, i), ref, st[:i] + [st[i] + d] + st[i + 1:]


def ladder_worlds(full):
    """long molecules (14 labels) whose second half is shifted by half a step (an indel), the shift building up over a short
    transition (an 'indel ladder'), optionally with one transition label displaced.  Two segments from the two diagonals then
    overlap in a few labels only (less than half of either), are chained, and the merge point falls INSIDE the overlap - the
    interior branch of the trimming code, with sub-runs whose unpaired positions differ."""
    ref = [0, 10, 20, 30, 50, 60, 70, 80, 100, 110, 120, 130, 140, 160, 170, 180, 190, 210, 220, 230]
    first, n = 2, 14
    for sign in (1, -1):
        for k in (2, 3, 4):
            for trans in itertools.combinations_with_replacement((1, 2, 3, 4), k):
                if not full and trans not in ((1, 3), (2, 2), (2, 3), (1, 2, 3), (2, 2, 3), (2, 3, 3), (1, 2, 3, 4), (2, 2, 3, 3)):
                    continue
                for j, v in [(None, None)] + [(j, v) for j in range(k) for v in (0, -1, 5)]:
                    t = list(trans)
                    if j is not None:
                        if t[j] == v:
                            continue
                        t[j] = v
                    a = 5
                    offs = [0] * a + t + [5] * (n - a - k)
                    q = [ref[first + i] - ref[first] + sign * o for i, o in enumerate(offs)]
                    if any(y <= x for x, y in zip(q, q[1:])):
                        continue
                    p0 = ref[first]
                    grid = [p0 - 10, p0 - 5, p0, p0 + 5, p0 + 10]
                    yield 'ladder%+d-%s-disp%s' % (sign, ''.join(map(str, trans)), '' if j is None else '%d=%d' % (j, v)), ref, q, grid


def dup_worlds():
    """tandem duplications: two diagonals whose segments overlap on ONE axis only (the same reference labels paired with two different
    stretches of the query, or the other way round), with an unpaired label of that axis at different places in the two copies"""
    # irregular gaps and a duplication offset that is not a multiple of the lattice step: a diagonal only fits its own copy
    base = [0, 10, 30, 70, 80, 120, 130, 160, 200, 210, 250, 270, 280, 320, 350, 360, 400, 420, 460, 470]
    a0, a1, b0, b1 = 2, 9, 7, 15           # copy 1 = labels 2..9, copy 2 = labels 7..15: they share labels 7, 8, 9
    D = (base[a1] - base[a0] + 15) - (base[b0] - base[a0])
    for drop1, drop2, graded in [(d1, d2, g) for d1 in (None, 7, 8, 9) for d2 in (None, 7, 8, 9) for g in (False, True)]:
            if drop1 is not None and drop1 == drop2:
                continue
            # graded: inside the shared stretch the first copy's pairs get worse label by label and the second copy's get better, so
            # the best place to cut lies strictly INSIDE the shared stretch
            j1 = {7: 0, 8: 2, 9: 4} if graded else {}
            j2 = {7: -4, 8: -2, 9: 0} if graded else {}
            part1 = [base[i] - base[a0] + j1.get(i, 0) for i in range(a0, a1 + 1) if i != drop1]
            part2 = [base[i] - base[a0] + D + j2.get(i, 0) for i in range(b0, b1 + 1) if i != drop2]
            dup = part1 + part2
            single = list(base)
            # (a) the QUERY carries the duplication: overlap on the reference axis only
            p0 = base[a0]
            yield 'dupQ-%s-%s-%s' % (drop1, drop2, graded), single, dup, [p0 - D - 5, p0 - D, p0 - D + 5, p0 - 5, p0, p0 + 5]
            # (b) the REFERENCE carries the duplication: overlap on the query axis only
            ref2 = [100 + x for x in dup]
            q2 = [base[i] - base[a0] for i in range(a0, b1 + 1)]
            yield 'dupR-%s-%s-%s' % (drop1, drop2, graded), ref2, q2, [100 - 5, 100, 100 + 5, 100 + D - 5, 100 + D, 100 + D + 5]


def collision_worlds():
    """three-segment collisions A, B, C on three diagonals: B's first pair uses A's last QUERY label (with an earlier reference label),
    B's second pair uses the REFERENCE label that C pairs second, and C's first pair uses A's last REFERENCE label.  Resolving A/B
    leaves B one pair, resolving B/C empties B - and A and C still share a label: the comparison has to go on with the segment before
    the emptied one.  (Other label pairs that happen to lie on one of the three diagonals are left in: they only add fragments.)"""
    # the chainer admits A->B and B->C only if the overlap is at most half of B on the reference: the label gap before the shared
    # reference label must equal the gap after it (G)
    for G in (50, 60, 80):
        for na in (3, 4, 5):
            for nc in (3, 4):
                for e in (0, 5, 20, 45):
                    pre = [70, 40, 90, 60][4 - (na - 2):] if na > 2 else []
                    gaps = [400] + pre + [G, G] + [80, 50, 70, 60][:nc] + [90]
                    R = [0]
                    for g in gaps:
                        R.append(R[-1] + g)
                    a0 = 1
                    c = a0 + na - 1
                    x = c - 1
                    d0 = R[a0]
                    qa = [R[i] - d0 for i in range(a0, c + 1)]
                    d1 = d0 - (R[c] - R[x])
                    qb2 = R[c + 1] - d1
                    d2 = (R[c] - qb2) - 10 - e
                    qc = [R[i] - d2 for i in range(c, c + nc)]
                    q = qa + [qb2] + qc
                    if any(y - x_ < 8 for x_, y in zip(q, q[1:])):
                        continue
                    yield 'collide-G%d-n%d-c%d-e%d' % (G, na, nc, e), list(R), q, sorted([d2, d1, d0])
                    # the same collision with the roles of the two maps exchanged
                    K, lo, hi = 100, a0 - 1, c + nc
                    ref2 = [K + v for v in q]
                    q2 = [R[i] - R[lo] for i in range(lo, hi + 1)]
                    yield 'collideR-G%d-n%d-c%d-e%d' % (G, na, nc, e), ref2, q2, sorted(K + R[lo] - d for d in (d0, d1, d2))


def shared_label_dup_worlds():
    """tandem duplications in which the two copies SHARE a label of the duplicated map: the last label of copy 1 is at the same time the
    first label of copy 2 (the duplication offset equals a label distance).  The two segments then share a label on BOTH axes, and with
    one label dropped from each copy (a different one) the overlapping sub-runs have equal label counts but pair different labels."""
    gaps = [10, 25, 40, 15, 35, 20, 45, 30, 55, 12, 38, 22, 48, 27, 33, 17, 43, 28, 52]       # no two stretches of the map resemble each other
    base = [0]
    for g in gaps:
        base.append(base[-1] + g)
    a0, a1, b1 = 2, 9, 15
    for b0 in (7, 8):                                   # copy 1 = labels a0..a1, copy 2 = labels b0..b1; label a1 of copy 1 = label b0 of copy 2
        D = base[a1] - base[b0]
        for drop1 in (None, 7, 8):
            for drop2 in (None, 8, 9, 10):
                if drop1 is not None and (drop1 < b0 or drop1 == drop2):
                    continue
                if drop2 is not None and drop2 <= b0:
                    continue
                part1 = [base[i] - base[a0] for i in range(a0, a1 + 1) if i != drop1]
                part2 = [base[i] - base[a0] + D for i in range(b0, b1 + 1) if i != drop2]
                dup = sorted(set(part1) | set(part2))
                if any(y - x < 5 for x, y in zip(dup, dup[1:])):
                    continue
                p0 = base[a0]
                yield 'dupQs-%d-%s-%s' % (b0, drop1, drop2), list(base), dup, [p0 - D - 5, p0 - D, p0 - D + 5, p0 - 5, p0, p0 + 5]
                ref2 = [100 + x for x in dup]
                q2 = [base[i] - base[a0] for i in range(a0, b1 + 1)]
                yield 'dupRs-%d-%s-%s' % (b0, drop1, drop2), ref2, q2, [100 - 5, 100, 100 + 5, 100 + D - 5, 100 + D, 100 + D + 5]


def basepair_worlds():
    """molecules in base pairs with irregular label spacing (as read from a CMAP file): a window of the reference with ONE label
    missing, an insertion of 1.5-2.5 kb right behind a pair of labels that are about that far apart, and one more label missing just
    behind the insertion.  The two diagonals then pair the labels around the insertion differently: each of the two segments leaves a
    different label of the overlap unpaired while they pair the same number of labels there."""
    ref = [0, 6656, 18115, 30560, 43706, 46629, 52446, 66467, 69170, 75190, 78389, 89717, 98124, 111246, 112971,
           122730, 133225, 137560, 144471, 156718, 162810, 173483, 183970, 190573, 204208, 214855, 215558, 216594,
           229639, 240494, 247938, 260566, 265641, 271657, 278776, 287503]
    # a molecule with sizing noise (found by a seeded-change author's random search, kept as a fixed regression input): the two segments
    # overlap on reference labels 26-28, the first leaves 26 unpaired, the second 28, both pair two labels there
    noisy = [0, 10801, 17602, 31646, 42613, 43337, 44404, 57840, 69021, 76688, 89695, 101119, 108451, 117440]
    yield 'bp-noisy-molecule', list(ref), noisy, [171098 - 968, 171098, 171098 + 968, 173034, 173034 + 968]
    for s0 in (21, 20):
        for miss1 in (25, 24):                       # label of the first stretch that the molecule lacks
            for shared in (27, 26):                  # the molecule label that is at once (shared) on diagonal 1 and (shared - 2) on diagonal 2
                for miss2 in (shared, shared + 1):   # label that diagonal 2 cannot pair
                    if not (s0 < miss1 < shared - 1):
                        continue
                    first = [ref[i] - ref[s0] for i in range(s0, shared + 1) if i != miss1]
                    shift = ref[shared] - ref[shared - 2]
                    second = [ref[i] - ref[s0] + shift for i in range(shared - 1, s0 + 15) if i != miss2]
                    q = sorted(set(first) | set(second))
                    if any(y - x < 600 for x, y in zip(q, q[1:])):
                        continue
                    d1 = ref[s0]
                    grid = [d1 - shift - 484, d1 - shift, d1 - shift + 484, d1 - 484, d1, d1 + 484]
                    yield 'bp-s%d-m%d-sh%d-m%d' % (s0, miss1, shared, miss2), list(ref), q, grid


def mirror(q):
    return sorted(q[-1] - p for p in q)


def subrun(out, inp):
    n = len(out.positions)
    for i in range(len(inp.positions) - n + 1):
        if all(a is b for a, b in zip(out.positions, inp.positions[i:i + n])):
            return True
    return False


def subrun_list(out_positions, in_positions):
    n = len(out_positions)
    for i in range(len(in_positions) - n + 1):
        if all(a is b for a, b in zip(out_positions, in_positions[i:i + n])):
            return True
    return False


def prs(s):
    return [p for p in s.positions if is_pair(p)]


def key(s):
    return s.startPosition.reference.position + s.endPosition.reference.position + s.startPosition.query.position + \
        s.endPosition.query.position


SCORING = [(100, 1, -25, 100, 120), (100, 1, -25, 60, 120),     # the second lets one-pair off-diagonal segments exist
           (100, 1, -25, 100, 120, 0, 0), (100, 1, -25, 60, 120, 0.5, 1),      # join multiplier 0 (a legal -sj value) / 0.5 with -ss 1
           (1000, 1, -250, 1000, 1200),                                         # the CLI defaults, for worlds in base pairs
           (100, 1, 0, 100, 120), (100, 1, 0, 60, 120)]                         # unmatched penalty 0 (-su 0 is legal): unpaired labels score exactly 0


@core.guarded(lambda rpos, qpos, maxd, rev, pk, acc=None, aligner=None, scoring=0: dict(reference=rpos, query=qpos, maxDistance=maxd, reverse=rev, peaks=pk, scoring=scoring))
def check_case(rpos, qpos, maxd, rev, pk, acc, aligner=None, scoring=0):
    al = aligner or make_aligner(maxd, *SCORING[scoring])
    ref = OpticalMap(1, rpos[-1] + 20, rpos)
    q = OpticalMap(2, qpos[-1] + 1, qpos)
    segs = [s for p in pk for s in al.getSegments(rev, Peak(p, 10.), q, ref)]
    ne = [s for s in segs if not s.empty]
    found = []
    case = dict(reference=rpos, query=qpos, maxDistance=maxd, reverse=rev, peaks=pk, scoring=scoring)
    sig = {'strand': '-' if rev else '+'}

    def bad(sym, detail=''):
        found.append((sym, '%s | in=%s' % (detail, ne), 'resolve', sig))

    trimmed = False
    if len(ne) >= 2:
        snap = [(s, list(s.positions), [p.score for p in s.positions], s.segmentScore) for s in segs]
        allpos = {id(p) for s in segs for p in s.positions}
        out = al.segmentConflictResolver.resolveConflicts(list(segs)).segments
        for s, pos, sc, tot in snap:
            if [p.score for p in pos] != sc:
                bad('position-re-scored')
        outne = [o for o in out if not o.empty]
        snapne = [pos for s, pos, sc, tot in snap if pos]
        for o in outne:
            owners = [pos for pos in snapne if subrun_list(o.positions, pos)]
            if not owners:
                bad('not-a-contiguous-sub-run', 'out=%s' % o)
            elif any(len(o.positions) < len(pos) for pos in owners):
                trimmed = True
            if any(id(p) not in allpos for p in o.positions):
                bad('new-position-object', 'out=%s' % o)
            if abs(sum(p.score for p in o.positions) - o.segmentScore) > 1e-9:
                bad('score-not-sum-of-remaining', 'out=%s' % o)
        if len(outne) < len(ne):
            trimmed = True
        for a, b in itertools.combinations(outne, 2):
            pa, pb = prs(a), prs(b)
            if {p.reference.siteId for p in pa} & {p.reference.siteId for p in pb}:
                bad('shared-reference-label', 'out=%s' % outne)
            if {p.query.siteId for p in pa} & {p.query.siteId for p in pb}:
                bad('shared-query-label', 'out=%s' % outne)
            if any((x.reference.position < y.reference.position) != (x.query.position < y.query.position)
                   and x.reference.siteId != y.reference.siteId and x.query.siteId != y.query.siteId for x in pa for y in pb):
                bad('segments-cross', 'out=%s' % outne)
        # single steps on every ordered pair (a before b along the diagonal)
        nsteps = 0
        for a, b in itertools.permutations(ne, 2):
            if key(a) > key(b):
                continue
            a2, b2 = a.checkForConflicts(b).resolveConflict()
            nsteps += 1
            bs, ae = b.startPosition, a.endPosition
            keep_a = [p for p in prs(a) if p.reference.position < bs.reference.position and p.query.position < bs.query.position]
            keep_b = [p for p in prs(b) if p.reference.position > ae.reference.position and p.query.position > ae.query.position]
            if any(not any(p is x for x in a2.positions) for p in keep_a):
                bad('step-lost-pairs-before-overlap', 'a=%s b=%s a2=%s' % (a, b, a2))
            if any(not any(p is x for x in b2.positions) for p in keep_b):
                bad('step-lost-pairs-after-overlap', 'a=%s b=%s b2=%s' % (a, b, b2))
            if (not a2.empty and not subrun(a2, a)) or (not b2.empty and not subrun(b2, b)):
                bad('step-not-a-sub-run', 'a=%s b=%s a2=%s b2=%s' % (a, b, a2, b2))
    else:
        out = segs
        outne = ne
        nsteps = 0
    if acc is not None:
        acc.evals += 1
        acc.transitions += len(pk) * 3 + 1 + nsteps
        acc.state((rev, tuple(tuple((p.reference.siteId, p.query.siteId) for p in prs(o)) for o in outne)))
        if len(ne) >= 2 and trimmed:
            acc.nontriv((tuple(rpos), tuple(qpos), maxd, rev, tuple(pk), scoring))
        acc.classes['segments-in=%d' % min(len(ne), 5)] += 1
        if trimmed:
            acc.classes['trimmed-or-dropped'] += 1
        if len(ne) >= 2 and sum(1 for o in outne for s_ in ne if subrun(o, s_) and 0 < len(o.positions) < len(s_.positions)) >= 2:
            acc.classes['>=2-segments-partially-trimmed(interior-merge)'] += 1
        if len(ne) >= 3 and len(outne) < len(ne):
            acc.classes['segment-emptied-or-unchained(>=3 in)'] += 1
        for f in found:
            acc.viol(f[0], case, f[1], f[2], f[3])
        acc.sample(case)
    return found


class Ladders(core.Layer):
    def __init__(self, name, world_list, kmax, optional=False, scorings=(0, 1), maxds=(4, 6)):
        self.name, self.optional = name, optional
        self.worlds = world_list
        self.kmax = kmax
        self.scorings = scorings
        self.maxds = maxds
        self.bounds = dict(worlds=len(world_list), maxDistance=list(maxds), scoring_sp_dp_su_ms_bs_sj_ss=[list(SCORING[i]) for i in scorings], ladder_sizes=[2, kmax], strides=[1, 2, 3],
                           strand_variants=['+ q', '- mirror(q)', '- q'])
        self.rule = '%d lattice worlds x 2 maxDistance x 3 strand variants x all peak ladders of size 2..%d' % (len(world_list), kmax)

    def nblocks(self):
        return len(self.worlds) * 4

    def run_block(self, b, acc):
        name, rpos, qpos = self.worlds[b // 4][:3]
        maxd = self.maxds[b % 2]
        sc = self.scorings[(b // 2) % 2]
        al = make_aligner(maxd, *SCORING[sc])
        lo = -qpos[-1] // 2 // 5 * 5 - 10
        grid = list(range(lo, rpos[-1] + 10, 5)) if len(self.worlds[b // 4]) < 4 else list(self.worlds[b // 4][3])
        for k in range(2, self.kmax + 1):
            for i0 in range(len(grid)):
                for strides in itertools.product((1, 2, 3), repeat=k - 1):
                    idx = [i0]
                    for s in strides:
                        idx.append(idx[-1] + s)
                    if idx[-1] >= len(grid):
                        continue
                    pk = [grid[i] for i in idx]
                    for rev, qq in ((False, qpos), (True, mirror(qpos)), (True, qpos)):
                        acc.seq += 1
                        check_case(rpos, qq, maxd, rev, pk, acc, al, sc)

    def replay(self, case):
        return check_case(case['reference'], case['query'], case['maxDistance'], case['reverse'], case['peaks'], None, None, case.get('scoring', 0))


def layers(tier, seed):
    base = list(base_worlds())
    if tier == 'quick':
        return [Ladders('base,k<=4', base, 4), Ladders('base,sj=0|0.5,k<=3', base, 3, scorings=(2, 3)), Ladders('base,su=0,k<=3', base, 3, scorings=(5, 6)), Ladders('derived/5,k<=3', list(derived_worlds())[::5], 3),
                Ladders('indel-ladders,k<=3', list(ladder_worlds(False)), 3), Ladders('duplications,k<=3', list(dup_worlds()) + list(shared_label_dup_worlds()), 3),
                Ladders('collisions,k<=3', list(collision_worlds()), 3),
                Ladders('base-pair-scale,k<=3', list(basepair_worlds()), 3, scorings=(4, 4), maxds=(1000, 1500))]
    der = list(derived_worlds())
    return [Ladders('base,k<=5', base, 5), Ladders('base,sj=0|0.5,k<=4', base, 4, scorings=(2, 3)), Ladders('base,su=0,k<=4', base, 4, scorings=(5, 6)), Ladders('indel-ladders,su=0,k<=3', list(ladder_worlds(False)), 3, scorings=(5, 6)), Ladders('duplications,sj=0|0.5,k<=3', list(dup_worlds()), 3, scorings=(2, 3)), Ladders('indel-ladders,k<=4', list(ladder_worlds(True)), 4), Ladders('duplications,k<=4', list(dup_worlds()) + list(shared_label_dup_worlds()), 4), Ladders('collisions,k<=3', list(collision_worlds()), 3), Ladders('base-pair-scale,k<=3', list(basepair_worlds()), 3, scorings=(4, 4), maxds=(1000, 1500)), Ladders('derived,k<=3', der, 3),
            Ladders('derived,k=4', der, 4, optional=True)]
