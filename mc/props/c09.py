"""C09 - output does not depend on the number of worker processes or on the run (S3: schedule exploration).

The process pool behind p_imap is replaced by mc.cpool.ControlledPool (real forked workers, explicit schedule).  For worlds
selected by a pre-scan (a query with two second-pass fragments that both align, one with one fragment, one with none) every
assignment of tasks to workers for both pool phases is executed, plus perturbed in-worker orders, completion orders (observable
only through an unordered map), hash seeds in separate interpreters, and the real CLI with several -c values.  All files must
be byte-identical (minus the lines that echo arguments/paths).
"""
import hashlib
import itertools
import json
import os
import subprocess
import sys

from mc import core, e2e, worlds, driver, cpool, xmaptext

RULE = ("per selected world (N first-pass tasks, M second-pass tasks): all set partitions of the N tasks into <= W workers x all set "
        "partitions of the M tasks (FIFO-realisable schedules); perturbed schedules (every in-worker execution order for blocks of "
        "size <= 3); reversed/rotated completion orders; identity repeated; PYTHONHASHSEED {0,1,seed-derived} in fresh interpreters; "
        "real `coma -c k` runs; non-trivial = schedule in which >= 2 workers execute >= 2 tasks each (or any CLI/hash-seed run); "
        "distinct by (world, schedule)")
ASSUMPTIONS = ["pool model = the four semantics in mc/cpool.py, re-measured against the real pathos pool by mc/poolprobe.py on every run",
               "task-level atomicity: workers share no memory and write no files",
               "real `coma -c k` runs are sampled OS schedules: supporting evidence (binding), any difference is still reported"]
THOROUGH_CAP_S = 2400.0


def triple(refs, ri, a, b, c, rev, ro):
    """A + gap + B + gap + C: B (the longest) is placed in the first pass, A and C become two second-pass fragments"""
    wa = worlds.window_query(refs[ro], a[0], a[1], rev)[0][2]
    wb = worlds.window_query(refs[ri], b[0], b[1], rev)[0][2]
    wc = worlds.window_query(refs[ro], c[0], c[1], rev)[0][2]
    q = worlds.apply_edit(wa, ('chimera', wb, 31000.0))
    return worlds.apply_edit(q, ('chimera', wc, 27000.0))


def candidate_worlds(n_queries, equal_flanks=False, dup_refs=False):
    """worlds with: a three-part query (two second-pass fragments), a two-part query (one fragment), two molecules of the SAME locus
    (identical leading labels, the second with a 400 bp insertion: equal label coordinates under different seed peaks), a sparse
    molecule whose candidate rows have secondary peaks but no qualifying segment (rows without pairs), plain windows, an unalignable one"""
    refs = e2e.std_refs()
    _, pool = e2e.query_pool()
    plain = [p for nm, p in pool if nm.startswith('plain')]
    chim = [p for nm, p in pool if nm.startswith('chimera') and '140000' in nm or nm.startswith('indel')]
    out = []
    for t, (ri, ro, rev) in enumerate(((0, 1, False), (1, 2, False), (2, 0, True), (0, 2, True), (1, 0, False), (2, 1, False))):
        # equal_flanks: both second-pass fragments are noise-free copies with the same number of labels -> exactly equal confidence,
        # so which of the two records survives the one-per-query filter depends on the order in which rows ARRIVE
        tq = triple(refs, ri, (5 + 3 * t, 10 if equal_flanks else 9), (22 + t, 16), (40 + t, 10 if equal_flanks else 12), rev, ro)
        # same locus twice: the second molecule carries a 400 bp insertion after its 6th label, so most of it (and hence its seed
        # peak) sits on a diagonal 400 bp away while its first six labels have exactly the coordinates of the first molecule's
        locus = worlds.window_query(refs[ri], 30 + t, 16, rev)[0][2]
        locus_b = worlds.apply_edit(list(locus), ('indel', 5, 400.0))
        wide = worlds.window_query(refs[ro], 3, 41, False)[0][2]
        sparse = [round(wide[i] + (400.0 if (i // 5) % 2 else -400.0) * (i > 0), 1) for i in range(0, 41, 5)]
        # ids are (30, 4, 17, 9, ...): the exact copy gets id 4 and is processed before its variant (id 9) when both share a worker
        qs = [tq, locus, chim[t % len(chim)], locus_b, sparse, plain[t % len(plain)], [100.0, 20000.0]][:n_queries]
        ids = (30, 4, 17, 9, 5216, 2, 8)
        # dup_refs: the first standard reference is in the file twice (ids 40 and its own): every seed peak on it has an exactly equal
        # twin, so anything that breaks ties by what a worker did before shows when tasks move between workers
        rl = [refs[1], (40, refs[0][1], list(refs[0][2])), refs[0], refs[2]] if dup_refs else [refs[1], refs[0], refs[2]]
        out.append(dict(refs=rl,
                        queries=[worlds.as_map(ids[j], q, trailing=(0.0, 2500.0)[j % 2]) for j, q in enumerate(qs)]))
    return out


def execute(world, s1, s2, directory=None, mode='all', cpus=None):
    """one execution under the controlled pool; returns ({file: stripped lines}, calls, error).  `-c` is set to the number of
    workers the schedule uses (so code that looks at the requested worker count sees what the schedule models)."""
    driver.install_pool(cpool.ControlledPool)
    try:
        cpool.SCHEDULES[:] = [s for s in (s1, s2)]
        del cpool.CALLS[:]
        if cpus is None:
            cpus = max([max(s['assign']) + 1 for s in (s1, s2) if s and s.get('assign')] + [1])
        obs = driver.run_world(world, mode, directory=directory, cpus=str(cpus), isolate=False)     # tasks run in the pool's own children
        calls = [dict(c) for c in cpool.CALLS]
    finally:
        driver.install_pool(driver.StandInPool)
        cpool.SCHEDULES[:] = []
    return {k: driver.strip_echo(v) for k, v in obs.files.items()}, calls, obs.error


def digest(files):
    return {k: hashlib.sha1('\n'.join(v).encode()).hexdigest() for k, v in sorted(files.items())}


def blocks_of(assign):
    b = {}
    for i, w in enumerate(assign):
        b.setdefault(w, []).append(i)
    return list(b.values())


def perturbed_orders(assign):
    """every execution order that permutes tasks inside blocks of size <= 3 (others stay ascending); identity excluded"""
    bl = blocks_of(assign)
    choices = [list(itertools.permutations(x)) if 2 <= len(x) <= 3 else [tuple(x)] for x in bl]
    for combo in itertools.product(*choices):
        order = [i for blk in combo for i in blk]
        if order != sorted(order) and any(list(c) != sorted(c) for c in combo):
            yield order


def prescan(world):
    """identity schedule in-process (stand-in pool): how many tasks per map call, which queries have second-pass records"""
    from mc import sink
    obs = driver.run_world(world, 'all', extensions=[sink.Candidates()], isolate=False)     # prescan itself runs isolated
    if obs.error or len(obs.map_calls) < 2:
        return None
    passes = []
    for ev in obs.events:
        if ev[0] == 'map':
            passes.append([])
        elif ev[0] == 'cands' and passes:
            passes[-1].append(ev[1])
    second = passes[1] if len(passes) > 1 else []
    frag = {}
    for cl in second:
        good = [c for c in cl if c['pairs']]
        if cl:
            frag.setdefault(cl[0]['query'], []).append(max([c['confidence'] for c in good], default=None))
    two = [q for q, v in frag.items() if len(v) == 2 and all(x is not None for x in v)]
    later_better = [q for q in two if frag[q][1] > frag[q][0]]
    tied = [q for q in two if frag[q][1] == frag[q][0]]
    rec2 = len(xmaptext.parse(obs.files.get('_2', ''))[2])
    return dict(N=obs.map_calls[0], M=obs.map_calls[1], two_fragment_queries=two, later_fragment_better=later_better, tied_fragment_queries=tied, second_pass_records=rec2)


class Schedules(core.Layer):
    def __init__(self, name, n_queries, W, n_worlds, seed, perturb_call1, cli_ks, optional=False, equal_flanks=False, fifo=True, dup_refs=False):
        self.name, self.optional = name, optional
        self.equal_flanks, self.fifo, self.dup_refs = equal_flanks, fifo, dup_refs
        self.n_queries, self.W, self.n_worlds, self.seed = n_queries, W, n_worlds, seed
        self.perturb_call1 = perturb_call1
        self.cli_ks = cli_ks
        self.items = []
        self.selected = []
        self.bounds = {}
        self.rule = 'see coverage.layers[].extra'

    def prepare(self):
        # 1. bind the pool model to the real pool
        out = subprocess.run([core.PYTHON, '-m', 'mc.poolprobe'], cwd=core.VERIF, capture_output=True, text=True, timeout=300,
                             env=dict(os.environ, PYTHONHASHSEED='0'))
        line = next((l for l in out.stdout.splitlines() if l.startswith('POOLPROBE ')), None)
        self.probe = json.loads(line[len('POOLPROBE '):]) if line else dict(ok=False, error=(out.stdout + out.stderr)[-600:])
        # 2. select worlds
        for w in candidate_worlds(self.n_queries, self.equal_flanks, self.dup_refs):
            st, info = core.run_isolated(prescan, w)     # never run COMA tasks in this process: workers inherit its state
            if st != 'ok':
                raise RuntimeError('prescan failed: %s' % info)
            if info and self.equal_flanks and not info.get('tied_fragment_queries'):
                continue
            if info and info['M'] >= 3 and info['second_pass_records'] >= 2 and info['two_fragment_queries']:
                base, calls, err = execute(w, None, None, cpus=self.W)
                basej, _, errj = execute(w, None, None, mode='joined', cpus=self.W)
                if err or errj:
                    continue
                self.selected.append(dict(world=w, info=info, base=base, base_joined=basej, calls=calls))
            if len(self.selected) >= self.n_worlds:
                break
        # 3. enumerate schedules
        for wi, sel in enumerate(self.selected):
            N, M = sel['info']['N'], sel['info']['M']
            p1 = list(cpool.partitions(N, self.W))
            p2 = list(cpool.partitions(M, self.W))
            for a1 in (p1 if self.fifo else p1[:1]):
                for a2 in p2:
                    self.items.append((wi, 'fifo', dict(assign=a1), dict(assign=a2)))
            for a2 in p2:
                for o in perturbed_orders(a2):
                    self.items.append((wi, 'perturbed', dict(assign=[0] * N), dict(assign=a2, order=o)))
                    self.items.append((wi, 'perturbed', dict(assign=[i % self.W for i in range(N)]),
                                       dict(assign=a2, order=o)))
            if self.perturb_call1:
                for a1 in p1:
                    for o in perturbed_orders(a1):
                        self.items.append((wi, 'perturbed', dict(assign=a1, order=o), dict(assign=[0] * M)))
            orders2 = [list(o) for o in itertools.permutations(range(M))] if M <= 4 else [list(range(M))[::-1], list(range(1, M)) + [0]]
            for o2 in orders2:
                if o2 != sorted(o2):
                    self.items.append((wi, 'completion', dict(assign=[i % 2 for i in range(N)], order=list(range(N))[::-1]),
                                       dict(assign=[i % 2 for i in range(M)], order=o2)))
            self.items.append((wi, 'completion', dict(assign=[i % 2 for i in range(N)], order=list(range(1, N)) + [0]), dict(assign=[0] * M)))
            self.items.append((wi, 'repeat', None, None))
            for hs in sorted({0, 1, 2 + self.seed % 1000}):
                for mode in ('all', 'joined'):
                    self.items.append((wi, 'hashseed', [hs, mode], dict(assign=[i % 2 for i in range(N)])))
            self.items.append((wi, 'one-cpu', None, None))
            for k in self.cli_ks:
                for rep in range(2 if k in (3,) else 1):
                    self.items.append((wi, 'cli', k, rep))
        self.bounds = dict(worlds=len(self.selected), workers_max=self.W,
                           tasks=[dict(N=s['info']['N'], M=s['info']['M'], info=s['info']) for s in self.selected],
                           cli_cpus=list(self.cli_ks), hash_seeds=sorted({0, 1, 2 + self.seed % 1000}))
        self.rule = '%d executions over %d selected worlds: %s' % (
            len(self.items), len(self.selected), dict((k, sum(1 for it in self.items if it[1] == k)) for k in
                                                      ('fifo', 'perturbed', 'completion', 'repeat', 'one-cpu', 'hashseed', 'cli')))

    def nblocks(self):
        return max(1, len(self.items) + 1)

    def run_block(self, b, acc):
        if b == len(self.items):
            # the conformance probe is part of the verdict's trusted base: report a failure as a harness error
            acc.evals += 1
            acc.transitions += 1
            acc.classes['pool-conformance-probe-ok' if self.probe.get('ok') else 'pool-conformance-probe-FAILED'] += 1
            if not self.probe.get('ok'):
                raise RuntimeError('pool conformance probe failed: the controlled pool no longer models the real pool: %s' % json.dumps(self.probe)[:1500])
            if not self.selected:
                acc.classes['no-world-qualified(vacuous)'] += 1
            return
        wi, kind, x1, x2 = self.items[b]
        sel = self.selected[wi]
        acc.seq += 1
        found = self.run_item(sel['world'], sel['base'], kind, x1, x2, acc, sel['base_joined'])
        case = dict(world=worlds.jsonable(sel['world']), kind=kind, a=x1, b=x2)
        for f in found:
            acc.viol(f[0], case, f[1], f[2], f[3])
        acc.sample(lambda: dict(world='%d queries x 3 references' % len(sel['world']['queries']), kind=kind, a=x1, b=x2))

    def run_item(self, world, base, kind, x1, x2, acc, base_joined=None):
        found = []
        ntasks = 0
        if kind in ('fifo', 'perturbed', 'completion', 'repeat'):
            files, calls, err = execute(world, x1, x2, cpus=None if kind != 'repeat' else self.W)
            ntasks = sum(c['n'] for c in calls)
            if kind == 'completion' and acc is not None and any(c['kind'] == 'uimap' for c in calls):
                acc.classes['unordered-map-in-use'] += 1
            if acc is not None and calls and len(calls) < 2:
                acc.classes['pool-not-used-by-every-pass'] += 1
            if acc is not None and any(not c.get('fits', True) for c in calls):
                acc.classes['task-count-differs-from-schedule'] += 1
        elif kind == 'one-cpu':
            files, calls, err = execute(world, None, None, cpus=1)
            ntasks = sum(c['n'] for c in calls)
        elif kind == 'hashseed':
            hs, mode = x1
            files, err = run_fresh(world, x2, None, hs, mode)
            if mode == 'joined':
                base = base_joined
        else:
            rc, errtxt, raw = driver.run_cli(world, 'all', cpus=x1, hashseed='random' if x2 else '0')
            err = None if rc == 0 else 'exit %s: %s' % (rc, errtxt[-300:])
            files = {k: driver.strip_echo(v) for k, v in raw.items()}
        if err:
            found.append(('execution-aborted', '%s %s' % (kind, err), kind, {'kind': kind}))
        elif files != base and digest(files) != base_digest(base):
            diff = [k for k in sorted(set(files) | set(base)) if files.get(k) != base.get(k)]
            d0 = diff[0]
            lines = [(a, b_) for a, b_ in zip(files.get(d0, []), base.get(d0, [])) if a != b_][:2]
            found.append(('output-differs-from-identity-schedule', '%s a=%s b=%s: files %s differ, e.g. %s' % (kind, x1, x2, diff, lines),
                          'schedule', {'kind': kind}))
        if acc is not None:
            acc.evals += 1
            acc.transitions += max(ntasks, 1)
            if kind in ('fifo', 'perturbed', 'completion'):
                a1 = (x1 or {}).get('assign') or []
                a2 = (x2 or {}).get('assign') or []
                acc.state((kind, tuple(a1), tuple((x1 or {}).get('order') or ()), tuple(a2), tuple((x2 or {}).get('order') or ())))
                multi = sum(1 for blk in blocks_of(a1) if len(blk) >= 2) >= 2 or sum(1 for blk in blocks_of(a2) if len(blk) >= 2) >= 2
                if multi:
                    acc.nontriv((kind, tuple(a1), tuple((x1 or {}).get('order') or ()), tuple(a2), tuple((x2 or {}).get('order') or ())))
            else:
                acc.state((kind, str(x1), str(x2)))
                acc.nontriv((kind, str(x1), str(x2)))
            acc.classes['executions:' + kind] += 1
        return found

    def replay(self, case):
        world = case['world']
        base, calls, err = execute(world, None, None, cpus=self.W)
        basej, _, errj = execute(world, None, None, mode='joined', cpus=self.W)
        if err or errj:
            return [('execution-aborted', err or errj, 'run', {})]
        return self.run_item(world, base, case['kind'], case['a'], case['b'], None, basej)

    def finish(self, merged):
        merged['extra'] = dict(pool_conformance_probe=self.probe, selected_worlds=[s['info'] for s in self.selected],
                               executions_by_kind={k: sum(1 for it in self.items if it[1] == k)
                                                   for k in ('fifo', 'perturbed', 'completion', 'repeat', 'one-cpu', 'hashseed', 'cli')})


class CliWorkers(core.Layer):
    """the real entry point with several --cpus values on fixed worlds (no pre-scan, no pool model): every run must equal the -c 1 run.
    These are sampled OS schedules; they bind the model to the real pool and catch dependence on the requested worker count even
    when a change alters how the work is cut into tasks."""

    def __init__(self, name, cpus, optional=False):
        self.name, self.optional, self.cpus = name, optional, cpus
        self.worlds = [candidate_worlds(6)[0], candidate_worlds(7)[3], decoy_world(), candidate_worlds(7, dup_refs=True)[1]]
        self.items = [(wi, k, mode) for wi in range(len(self.worlds)) for k in cpus for mode in (('all',) if wi else ('all', 'joined'))]
        self.worlds.append(many_world())
        self.items += [(len(self.worlds) - 1, k, 'all') for k in (2, 3)]
        # the XMAP on standard output (no -o): whatever a worker prints ends up in it
        self.items += [(len(self.worlds) - 1, k, 'stdout') for k in (2, 3)]
        # the same command a second time INTO THE SAME OUTPUT PATH (the files of the first run are still there)
        self.items += [(wi, 'again', mode) for wi in (0, 2) for mode in ('all', 'joined')]
        self.bounds = dict(worlds=len(self.worlds), cpus=list(cpus), baseline='-c 1')
        self.rule = '%d real CLI runs, each compared with the -c 1 run of the same world and mode' % len(self.items)
        self.base = {}

    def prepare(self):
        for wi, w in enumerate(self.worlds):
            for mode in sorted({m for i, k, m in self.items if i == wi}):
                if mode == 'stdout':
                    rc, err, raw = driver.run_cli(w, 'best', cpus=1, to_stdout=True)
                else:
                    rc, err, raw = driver.run_cli(w, mode, cpus=1)
                self.base[(wi, mode)] = (rc, {k: driver.strip_echo(v) for k, v in raw.items()}, err[-300:])

    def nblocks(self):
        return len(self.items)

    def run_block(self, b, acc):
        wi, k, mode = self.items[b]
        acc.seq += 1
        found = self.run_item(self.worlds[wi], self.base[(wi, mode)], k, mode, acc)
        case = dict(world=worlds.jsonable(self.worlds[wi]), cpus=k, mode=mode)
        for f in found:
            acc.viol(f[0], case, f[1], f[2], f[3])
        acc.sample(lambda: dict(world='%d queries' % len(self.worlds[wi]['queries']), cpus=k, mode=mode))

    def run_item(self, world, base, k, mode, acc):
        if k == 'again':
            d = os.path.join(core.scratch_dir(), 'again-%d' % os.getpid())
            os.makedirs(d, exist_ok=True)
            rc, err, raw = driver.run_cli(world, mode, cpus=2, directory=d)
            if rc == 0:
                rc, err, raw = driver.run_cli(world, mode, cpus=2, directory=d, keep_outputs=True)
        elif mode == 'stdout':
            rc, err, raw = driver.run_cli(world, 'best', cpus=k, to_stdout=True)
        else:
            rc, err, raw = driver.run_cli(world, mode, cpus=k)
        files = {x: driver.strip_echo(v) for x, v in raw.items()}
        found = []
        if base[0] != 0:
            found.append(('execution-aborted', '-c 1: exit %s %s' % (base[0], base[2]), 'cli', {'kind': 'cli'}))
        elif rc != 0:
            found.append(('execution-aborted', '-c %s: exit %s %s' % (k, rc, err[-300:]), 'cli', {'kind': 'cli'}))
        elif files != base[1]:
            diff = [x for x in sorted(set(files) | set(base[1])) if files.get(x) != base[1].get(x)]
            found.append(('output-differs-on-repetition-into-the-same-path' if k == 'again' else 'output-differs-between-cpus-values', 'mode %s: -c %s vs -c 1: files %s differ (%d vs %d lines in %s)' % (
                mode, k, diff, len(files.get(diff[0], [])), len(base[1].get(diff[0], [])), diff[0]), 'cli', {'kind': 'cli'}))
        if acc is not None:
            acc.evals += 1
            acc.transitions += 1
            acc.state(('cli', k, mode, len(world['queries'])))
            acc.nontriv(('cli', k, mode, len(world['queries'])))
            acc.classes['executions:cli'] += 1
        return found

    def replay(self, case):
        w = case['world']
        rc, err, raw = driver.run_cli(w, case['mode'], cpus=1) if case['mode'] != 'stdout' else driver.run_cli(w, 'best', cpus=1, to_stdout=True)
        return self.run_item(w, (rc, {k: driver.strip_echo(v) for k, v in raw.items()}, err[-300:]), case['cpus'], case['mode'], None)


def decoy_world():
    """a second-pass fragment whose true location scores BELOW three decoys in the coarse seeding step (the decoys sit on another
    reference, their labels about 900 bp off; the true copy lacks a quarter of its labels and is shifted by half a seeding bin) but far
    above them in the fine alignment: which candidates are tried depends on whether the top seeds are taken over all references or
    reference by reference"""
    refs = e2e.std_refs()
    a, b = refs[0], refs[1]
    frag = worlds.window_query(b, 30, 14, False)[0][2]
    long_part = worlds.window_query(b, 5, 20, False)[0][2]
    q = worlds.apply_edit(list(long_part), ('chimera', list(frag), 33000.0))
    # reference A': A plus three decoy copies of the fragment (labels alternately +900 / -900 bp off) appended behind A's labels
    pos = list(a[2])
    x = pos[-1] + 40000.0
    for d in range(3):
        for i, p in enumerate(frag):
            pos.append(round(x + p + (900.0 if (i + d) % 2 else -900.0), 1))
        x = pos[-1] + 40000.0
    a2 = (a[0], pos[-1] + 14000.0, pos)
    # reference B': the true copy keeps 3 of every 4 labels and is shifted by 700 bp relative to the seeding bins
    bp = list(b[2])
    lo, hi = b[2][30], b[2][43]
    kept = [p for i, p in enumerate(bp) if not (lo <= p <= hi and (i - 30) % 4 == 1)]
    b2 = (b[0], b[1], [round(p + (700.0 if p >= lo else 0.0), 1) for p in kept])
    return dict(refs=[a2, b2], queries=[worlds.as_map(30, q), worlds.as_map(4, worlds.window_query(a, 12, 16, True)[0][2])])


def many_world(n=20):
    """more molecules than 16 x cpus for -c 1 (and more than 4 x cpus for -c 2, 3): anything that cuts the work into batches or
    chunks whose size depends on --cpus gets different cuts; a SHORT reference (shorter than the long molecules) is the true origin of
    the short molecules, which follow long ones in file order"""
    refs = e2e.std_refs()
    short = worlds.catalogue_ref(9, 'menu', 12, ref_id=1)
    qs = []
    for j in range(n):
        if j % 2:
            q = worlds.window_query(short, (j // 2) % 4, 8, bool(j % 4 == 1))[0][2]
        elif j % 6 == 4:
            r = refs[(j // 2) % 3]
            a, b = worlds.window_query(r, 5 + j, 12, False)[0][2], worlds.window_query(r, 30 + j // 2, 10, False)[0][2]
            q = worlds.apply_edit(a, ('chimera', b, 140000.0))
        else:
            q = worlds.window_query(refs[(j // 2) % 3], 6 + 2 * j, 18 + j % 5, bool(j % 4 == 2))[0][2]
        qs.append(worlds.as_map(100 + j, q, trailing=(0.0, 2500.0)[j % 2]))
    return dict(refs=[refs[1], short, refs[0], refs[2]], queries=qs)


def base_digest(base):
    return digest(base)


def run_fresh(world, s1, s2, hashseed, mode='all'):
    """the same controlled-pool execution in a fresh interpreter with another hash seed"""
    d = core.scratch_dir()
    path = os.path.join(d, 'c09-%d.json' % os.getpid())
    with open(path, 'w') as f:
        json.dump(dict(world=worlds.jsonable(world), s1=s1, s2=s2, mode=mode), f)
    out = subprocess.run([core.PYTHON, '-m', 'mc.props.c09', path], cwd=core.VERIF, capture_output=True, text=True, timeout=600,
                         env=dict(os.environ, PYTHONHASHSEED=str(hashseed)))
    line = next((l for l in out.stdout.splitlines() if l.startswith('C09EXEC ')), None)
    if line is None:
        return {}, 'fresh interpreter failed: ' + (out.stdout + out.stderr)[-400:]
    res = json.loads(line[len('C09EXEC '):])
    return res['files'], res['error']


def layers(tier, seed):
    tie = Schedules('ties:N4,W2', 4, 2, 1, seed, False, (2,), equal_flanks=True, fifo=False)
    dup = Schedules('twin-reference:N4,W2', 4, 2, 1, seed, False, (), dup_refs=True)
    if tier == 'quick':
        return [Schedules('N5,W3', 5, 3, 1, seed, False, (1, 3, 16)), tie, dup, CliWorkers('cli', (2, 3, 4, 16))]
    return [Schedules('N5,W3', 5, 3, 1, seed, True, (1, 2, 3, 5, 8, 16)), tie, dup, Schedules('twin-reference:N5,W3', 5, 3, 1, seed, False, (3,), dup_refs=True),
            CliWorkers('cli', (2, 3, 4, 5, 6, 7, 8, 12, 16)),
            Schedules('N6,W4', 6, 4, 1, seed, False, (2, 3)),
            Schedules('N7,W4', 7, 4, 1, seed, False, (3,), optional=True)]


if __name__ == '__main__':
    core.setup_repo_path()
    with open(sys.argv[1]) as fh:
        job = json.load(fh)
    w = dict(refs=[tuple(m) for m in job['world']['refs']], queries=[tuple(m) for m in job['world']['queries']])
    files, calls, err = execute(w, job['s1'], job['s2'], mode=job.get('mode', 'all'))
    print('C09EXEC ' + json.dumps(dict(files=files, error=err)))
