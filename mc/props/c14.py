"""C14 - the chain is a best-scoring admissible order-respecting selection of segments.

S1 on SegmentChainer(SequentialityScorer(mult, variant)).chain(segments) and .getScore with real AlignmentSegment
objects drawn from a pool of lattice descriptors (contiguous, gapped, overlapping by less / exactly / more than half,
crossing, tied in ordering key), both strands.
"""
import itertools
import math

from mc import core
from mc.coma import (AlignmentSegment, EmptyAlignmentSegment, ScoredAlignedPair, AlignedPair, PositionWithSiteId as P, Peak,
                     SegmentChainer, SequentialityScorer)

RULE = ("every subset (size bound) of a 21-descriptor segment pool, every input permutation for small subsets, 0-2 empty "
        "segments added, x strands x 2 join-score variants x 3 multipliers; oracle = brute force over ALL subsets in key order; "
        "non-trivial = optimum uses >= 2 segments and differs from 'take all' and from 'take the best single one'; distinct by "
        "(strand, variant, multiplier, subset)")
ASSUMPTIONS = ["join scores used by the brute force are COMA's own getScore values; getScore itself is checked against geometric "
               "clauses (<= 0, 0 for contiguous, -inf iff overlap > half the shorter)",
               "ties in the ordering key: any tie order is accepted (optimum >= min over tie orders)"]

NQ = 60
# (reference start, length, diagonal offset, score)
POOL = [(100, 20, 0, 100), (120, 20, 0, 250), (130, 40, 0, 100), (150, 20, 10, 100), (110, 20, -10, 250), (180, 20, 0, 100),
        (180, 0, 30, 100), (200, 40, 10, 250), (140, 20, 0, 100), (160, 40, -30, 100), (230, 20, 0, 100), (100, 40, 10, 250),
        (120, 20, 0, 100), (140, 0, 0, 250),
        # locally stretched segments: 5th element = query length (shorter on the reference but longer on the query, and vice versa)
        (150, 20, 0, 250, 40), (160, 40, -10, 100, 20), (190, 20, 10, 100, 30), (100, 20, 0, 250, 40), (130, 40, -10, 100, 20),
        # odd extents: an overlap of 11 is just over half of 21 (floor division of a negative length rounds the wrong way)
        (200, 21, 0, 250), (210, 21, 0, 100)]


def seg(desc, rev):
    rs, ln, off, score = desc[:4]
    r0, r1, q0, q1 = geom(desc)

    def pr(r, qp, sc):
        qs = qp // 10 + 1 if not rev else NQ - qp // 10
        return ScoredAlignedPair(AlignedPair(P(r // 10 + 1, r), P(qs, qp)), sc)
    pos = [pr(r0, q0, score / 2), pr(r1, q1, score / 2)] if ln else [pr(r0, q0, score)]
    return AlignmentSegment(pos, score, Peak(100 - off, 1), pos)


def geom(desc):
    rs, ln, off, score = desc[:4]
    qlen = desc[4] if len(desc) > 4 else ln
    return rs, rs + ln, rs - 100 + off, rs - 100 + off + qlen     # r0, r1, q0, q1 (mirrored query coordinates ascend on both strands)


def key_of(desc):
    return sum(geom(desc))


def overlap_exceeds_half(a, b):
    """geometric, independent of getScore: b follows a; overlap on either axis by more than half the shorter one"""
    ar0, ar1, aq0, aq1 = geom(a)
    br0, br1, bq0, bq1 = geom(b)
    rl = min(ar1 - ar0, br1 - br0)
    ql = min(aq1 - aq0, bq1 - bq0)
    rd = br0 - ar1
    qd = bq0 - aq1
    return (rd < 0 and -2 * rd > rl) or (qd < 0 and -2 * qd > ql)


@core.guarded(lambda rev, variant, mult, sub, nempty, acc=None, cache=None, before=None: dict(reverse=rev, variant=variant, multiplier=mult, subset=list(sub), empties=nempty, before=list(before) if before else None))
def check_case(rev, variant, mult, sub, nempty, acc, cache=None, before=None):
    scorer = SequentialityScorer(mult, variant)
    chainer = SegmentChainer(scorer)
    if before:
        # operation sequence: an earlier chain() call on the SAME chainer / scorer instance (another query handled by the same worker)
        chainer.chain([seg(POOL[i], rev) for i in before])
    descs = [POOL[i] for i in sub]
    segs = [seg(d, rev) for d in descs]
    empties = [EmptyAlignmentSegment(Peak(0, 1), []) for _ in range(nempty)]
    inp = segs[:1] + empties[:1] + segs[1:] + empties[1:]
    out = chainer.chain(list(inp))
    found = []
    case = dict(reverse=rev, variant=variant, multiplier=mult, subset=list(sub), empties=nempty, before=list(before) if before else None)

    def bad(sym, detail=''):
        found.append((sym, '%s descs=%s out=%s' % (detail, descs, [idx(o) for o in out]), 'chain', {'strand': '-' if rev else '+'}))

    def idx(o):
        for i, s in enumerate(segs):
            if o is s:
                return sub[i]
        for i, e in enumerate(empties):
            if o is e:
                return 'empty%d' % i
        return 'foreign'

    ids = [idx(o) for o in out]
    if 'foreign' in ids or len(set(ids)) != len(ids):
        bad('not-a-subset')
        return _finish(acc, case, found, None, rev, variant, mult, sub)
    if sorted(i for i in ids if isinstance(i, str)) != ['empty%d' % i for i in range(nempty)]:
        bad('empty-not-passed-through')
    chosen = [i for i in ids if not isinstance(i, str)]
    g = {}
    n = len(segs)
    for i in range(n):
        for j in range(n):
            if i != j:
                v = scorer.getScore(segs[i], segs[j])
                g[(sub[i], sub[j])] = v
                if v > 0:
                    bad('positive-join-score', '%s->%s %s' % (sub[i], sub[j], v))
                ex = overlap_exceeds_half(descs[i], descs[j])
                if (v == -math.inf) != ex and key_of(descs[i]) <= key_of(descs[j]):
                    bad('minus-infinity-iff-overlap', '%s->%s score=%s overlap_exceeds_half=%s' % (sub[i], sub[j], v, ex))
                ar0, ar1, aq0, aq1 = geom(descs[i])
                br0, br1, bq0, bq1 = geom(descs[j])
                if br0 == ar1 and bq0 == aq1 and v != 0:
                    bad('contiguous-join-not-zero', '%s->%s %s' % (sub[i], sub[j], v))
    score = {sub[i]: descs[i][3] for i in range(n)}
    ks = [key_of(POOL[i]) for i in chosen]
    if ks != sorted(ks):
        bad('not-ordered-along-diagonal')
    tot = sum(score[i] for i in chosen) + sum(g[(a, b)] for a, b in zip(chosen, chosen[1:]))
    if tot == -math.inf or tot != tot:
        bad('total-minus-infinity')
    for a, b in zip(chosen, chosen[1:]):
        if overlap_exceeds_half(POOL[a], POOL[b]):
            bad('overlap-exceeds-half-consecutive', '%s->%s' % (a, b))
    # brute force: all subsets taken in key order; for tied keys every tie order (accept the minimum of the optima)
    groups = [list(grp) for _, grp in itertools.groupby(sorted(sub, key=lambda i: key_of(POOL[i])), key=lambda i: key_of(POOL[i]))]
    optima = []
    for orders in itertools.product(*[itertools.permutations(grp) for grp in groups]):
        order = [i for grp in orders for i in grp]
        best = -math.inf
        bestset = None
        for m in range(1, 1 << len(order)):
            c = [order[i] for i in range(len(order)) if m >> i & 1]
            v = sum(score[i] for i in c) + sum(g[(a, b)] for a, b in zip(c, c[1:]))
            if v > best:
                best, bestset = v, c
        optima.append((best, bestset))
    need = min(o[0] for o in optima)
    if not tot >= need - 1e-9:
        bad('not-optimal', 'total=%s optimum=%s by %s' % (tot, need, optima[0][1]))
    return _finish(acc, case, found, (tot, chosen, optima[0][1]), rev, variant, mult, sub)


def _finish(acc, case, found, res, rev, variant, mult, sub):
    if acc is not None:
        acc.evals += 1
        acc.transitions += 1 + len(sub) * (len(sub) - 1)
        if res:
            tot, chosen, bestset = res
            acc.state((rev, variant, mult, tuple(chosen), tot))
            best_single = max(POOL[i][3] for i in sub)
            if len(bestset) >= 2 and len(bestset) < len(sub) and tot > best_single:
                acc.nontriv((rev, variant, mult, tuple(sorted(sub))))
            acc.classes['chain-length=%d' % min(len(chosen), 4)] += 1
            if len(chosen) < len(sub):
                acc.classes['dropped-some'] += 1
        for f in found:
            acc.viol(f[0], case, f[1], f[2], f[3])
        acc.sample(case)
    return found


class Subsets(core.Layer):
    def __init__(self, name, kmin, kmax, perm_upto, empties_upto, optional=False):
        self.name = name
        self.optional = optional
        self.configs = [(rev, variant, mult) for rev in (False, True) for variant in (0, 1) for mult in (0, 0.5, 1)]
        self.kmin, self.kmax, self.perm_upto, self.empties_upto = kmin, kmax, perm_upto, empties_upto
        self.bounds = dict(pool=[list(d) for d in POOL], subset_size=[kmin, kmax], all_input_permutations_up_to_size=perm_upto,
                           empty_segments_added_up_to_size=empties_upto, strands=['+', '-'], variants=[0, 1], multipliers=[0, 0.5, 1])
        self.rule = 'all subsets of size %d..%d of a %d-descriptor pool x %d scorer/strand configurations' % (
            kmin, kmax, len(POOL), len(self.configs))

    def nblocks(self):
        return len(self.configs) * len(POOL)

    def run_block(self, b, acc):
        rev, variant, mult = self.configs[b // len(POOL)]
        first = b % len(POOL)
        for k in range(self.kmin, self.kmax + 1):
            for rest in itertools.combinations(range(first + 1, len(POOL)), k - 1):
                sub = (first,) + rest
                orders = itertools.permutations(sub) if k <= self.perm_upto else [sub]
                for order in orders:
                    for ne in ((0, 1, 2) if k <= self.empties_upto else (0,)):
                        acc.seq += 1
                        check_case(rev, variant, mult, list(order), ne, acc)

    def replay(self, case):
        return check_case(case['reverse'], case['variant'], case['multiplier'], case['subset'], case['empties'], None, None, case.get('before'))


class TwoCalls(Subsets):
    """two consecutive chain() calls on one chainer: the first on a subset that chains >= 2 segments, the second (judged) on another"""

    def __init__(self, name, nfirst, kmax, optional=False):
        Subsets.__init__(self, name, 2, kmax, 0, 0, optional)
        self.firsts = [c for k in (2, 3) for c in itertools.combinations(range(len(POOL)), k)][::max(1, 1350 // nfirst)][:nfirst]
        self.configs = [(rev, variant, 1) for rev in (False, True) for variant in (0, 1)]
        self.rule = '%d first calls x all subsets of size 2..%d as second call x %d configurations, on one chainer instance' % (len(self.firsts), kmax, len(self.configs))
        self.bounds = dict(self.bounds, sequence_length=2, first_calls=len(self.firsts))

    def nblocks(self):
        return len(self.configs) * len(self.firsts)

    def run_block(self, b, acc):
        rev, variant, mult = self.configs[b // len(self.firsts)]
        before = self.firsts[b % len(self.firsts)]
        for k in range(2, self.kmax + 1):
            for sub in itertools.combinations(range(len(POOL)), k):
                acc.seq += 1
                check_case(rev, variant, mult, list(sub), 0, acc, None, list(before))


@core.guarded(lambda n, rev, variant, mult, shuffle, *a: dict(kind='long-chain', segments=n, reverse=rev, variant=variant, multiplier=mult, order=shuffle))
def check_long(n, rev, variant, mult, shuffle, acc):
    """n collinear segments 10 apart on both axes (join cost 20 x multiplier each, score 100 each): the best chain is ALL of them; far
    more segments than the subset layers can compare with brute force"""
    descs = [(100 + 30 * i, 20, 0, 100) for i in range(n)]
    segs = [seg(d, rev) for d in descs]
    order = list(range(n))
    if shuffle == 'reversed':
        order = order[::-1]
    elif shuffle == 'interleaved':
        order = order[::2] + order[1::2]
    out = SegmentChainer(SequentialityScorer(mult, variant)).chain([segs[i] for i in order])
    kept = [o for o in out if not o.empty]
    found = []
    case = dict(kind='long-chain', segments=n, reverse=rev, variant=variant, multiplier=mult, order=shuffle)
    ids = [next(i for i, s_ in enumerate(segs) if s_ is o) for o in kept]
    if ids != list(range(n)):
        found.append(('not-optimal', '%d collinear segments, chain keeps %d of them: %s (every segment adds 100 and costs at most %s to join)' % (
            n, len(ids), ids, 20 * mult), 'chain', {'strand': '-' if rev else '+', 'long': True}))
    if acc is not None:
        acc.evals += 1
        acc.transitions += n * (n - 1) // 2
        acc.state(('long', n, tuple(ids) == tuple(range(n))))
        acc.nontriv(('long', n, rev, variant, mult, shuffle))
        for f in found:
            acc.viol(f[0], case, f[1], f[2], f[3])
        acc.sample(case)
    return found


class LongChains(core.Layer):
    name = 'long-chains'
    optional = False

    def __init__(self):
        self.cases = [(n, rev, variant, mult, sh) for n in (9, 16, 17, 18, 24, 40) for rev in (False, True) for variant in (0, 1) for mult in (1, 0.5)
                      for sh in ('sorted', 'reversed', 'interleaved')]
        self.bounds = dict(segments=[9, 16, 17, 18, 24, 40], input_orders=['sorted', 'reversed', 'interleaved'], variants=[0, 1], multipliers=[1, 0.5])
        self.rule = '%d chains of 9-40 collinear segments (analytic optimum: all of them)' % len(self.cases)

    def nblocks(self):
        return 6

    def run_block(self, b, acc):
        for c in self.cases[b::6]:
            acc.seq += 1
            check_long(*c, acc)

    def replay(self, case):
        return check_long(case['segments'], case['reverse'], case['variant'], case['multiplier'], case['order'], None)


def layers(tier, seed):
    if tier == 'quick':
        return [Subsets('k<=4', 1, 4, 3, 2), Subsets('k=5', 5, 5, 0, 0), TwoCalls('seq2:k<=3', 24, 3), LongChains(), Subsets('k=6', 6, 6, 0, 0)]
    return [Subsets('k<=4', 1, 4, 4, 3), Subsets('k=5', 5, 5, 0, 0), TwoCalls('seq2:k<=3', 120, 3), LongChains(), Subsets('k=6', 6, 6, 0, 0), Subsets('k=7', 7, 7, 0, 0),
            Subsets('k=8', 8, 8, 0, 0, optional=True)]
