"""C18 - XMAP written by COMA reads back to the same alignments.

Layer A (S1): synthetic AlignmentResults (0..3 records from a catalogue: one pair, contiguous, gapped, reverse, second-pass with
shifted label numbers, awkward confidences) written with XmapReader.writeAlignments and read with XmapReader.readAlignments using
both pair parsers.  Layer B (S2): every file of the standard worlds in every mode (including zero-record files).
"""
import io
import itertools
import os

from mc import core, e2e, cmaptext, driver, worlds
from mc.coma import (AlignmentResultRow, AlignmentResults, AlignmentSegment, AlignmentSegmentsWithResolvedConflicts,
                     ScoredAlignedPair, AlignedPair, PositionWithSiteId as P, Peak, OpticalMap)

RULE = ("A: every tuple of 0..3 (quick) / 0..4 (thorough) records drawn from a 12-record catalogue (two references, one query on both, two-digit label numbers, awkward roundings), written by the real writer and read back by the real "
        "reader with both pair parsers, compared field by field with an independent parse of the written text; non-trivial = file "
        "has 0 or 1 record, a one-pair record, a second-pass record or records on two references. B: every file of the standard worlds x 4 modes")
ASSUMPTIONS = ["'written values' are taken from the file text with mc/xmaptext.py"]

REFS = [(5, 90000.7, [1000.0, 11000.5, 26000.0, 41000.0, 43000.2, 61000.0, 80000.0]),
        (8, 140000.0, [2000.0, 9000.0, 21000.5, 30000.0, 38000.0, 51000.0, 60000.0, 72000.0, 80000.3, 95000.0, 110000.0, 131000.0])]
QRY = [(12, 60000.0, [500.0, 10500.5, 25500.0, 40500.0, 42500.2, 60500.0]), (3, 30000.0, [0.0, 10000.0, 25000.0, 29000.0]),
       (40, 130000.0, [700.0, 7700.0, 19700.5, 28700.0, 36700.0, 49700.0, 58700.0, 70700.0, 78700.3, 93700.0, 108700.0])]
# (query id, reference id, pairs, reverse, alignedRest, confidence)
CATALOGUE = [
    (12, 5, [(2, 2)], False, False, 1000.0),
    (12, 5, [(1, 1), (2, 2), (3, 3)], False, False, 2876.565),
    (12, 5, [(1, 1), (3, 2), (4, 4), (6, 6)], False, False, 0.005),
    (12, 5, [(1, 6), (2, 5), (4, 3)], True, False, 99.995),
    (3, 5, [(4, 3), (6, 4)], False, True, 1750.25),
    (3, 5, [(2, 4), (3, 3), (4, 2), (5, 1)], True, True, 3999.999),
    (12, 5, [(5, 5), (6, 6)], False, True, 12.3),
    (3, 5, [(7, 1)], True, False, 1e-9),
    # the same query on a second reference; two-digit label numbers on both maps; confidences that round awkwardly
    (12, 8, [(1, 1), (2, 2), (3, 3)], False, False, 2.675),
    (40, 8, [(2, 1), (3, 2), (4, 3), (5, 4), (6, 5), (7, 6), (8, 7), (9, 8), (10, 9), (11, 10), (12, 11)], False, False, 123456.789),
    (40, 8, [(9, 11), (10, 10), (11, 9), (12, 7)], True, False, 0.125),
    (3, 8, [(10, 1), (12, 4)], False, True, 1000000.0),
]


def _maps():
    refs = {m[0]: OpticalMap(m[0], int(m[1]), list(m[2])) for m in REFS}
    qs = {m[0]: OpticalMap(m[0], m[1], list(m[2])).trim() for m in QRY}
    return refs, qs


def build_row(rec, refs, qs):
    qid, rid, pairs, rev, rest, conf = rec
    q, ref = qs[qid], refs[rid]
    qlab = {x.siteId: x for x in q.getPositionsWithSiteIds(rev)}
    rlab = {x.siteId: x for x in ref.getPositionsWithSiteIds()}
    pos = [ScoredAlignedPair(AlignedPair(rlab[r], qlab[ql]), conf / len(pairs)) for r, ql in pairs]
    seg = AlignmentSegment(pos, conf, Peak(0, 1.), pos)
    return AlignmentResultRow.create(AlignmentSegmentsWithResolvedConflicts([seg]), qid, ref.moleculeId, q.length, ref.length,
                                     rev).setAlignedRest(rest)


@core.guarded(lambda idxs, *a: dict(records=list(idxs)))
def check_case(idxs, acc):
    from src.args import Args
    from src.parsers.xmap_reader import XmapReader
    from src.parsers.xmap_alignment_pair_parser import XmapAlignmentPairWithDistanceParser
    d = core.scratch_dir()
    rp, qp, op = os.path.join(d, 'r18.cmap'), os.path.join(d, 'q18.cmap'), os.path.join(d, 'o18.xmap')
    with open(rp, 'w') as f:
        f.write(cmaptext.text(REFS))
    with open(qp, 'w') as f:
        f.write(cmaptext.text(QRY))
    refs, qs = _maps()
    rows = [build_row(CATALOGUE[i], refs, qs) for i in idxs]
    args = Args.parse(driver.cli_args(rp, qp, op, 'best'))
    found = []
    try:
        XmapReader().writeAlignments(args.outputFile, AlignmentResults(rp, qp, rows), args)
        args.outputFile.close()
        txt = open(op).read()
    except Exception as e:
        found.append(('writer-exception', '%s: %s' % (type(e).__name__, e), 'writer', {}))
        txt = None
    finally:
        for fobj in (args.referenceFile, args.queryFile, args.outputFile):
            fobj.close()
    if txt is not None:
        readers = (XmapReader(XmapAlignmentPairWithDistanceParser(list(refs.values()), list(qs.values()))), XmapReader(), list(refs.values()), list(qs.values()))
        rmaps, qmaps = cmaptext.parse(cmaptext.text(REFS)), cmaptext.parse(cmaptext.text(QRY))
        probs, n = e2e.readback_problems(txt, readers, rmaps, qmaps, only_valid=False)
        if n != len(rows):
            found.append(('written-record-count', 'wrote %d rows, file has %d records' % (len(rows), n), 'writer', {}))
        else:
            # "confidence to two decimals": what is read back is the alignment's confidence at two decimals
            from mc import xmaptext
            try:
                back = readers[1].readAlignments(io.StringIO(txt))
                for b, row in zip(back, rows):
                    if abs(float(b.confidence) - float('%.2f' % row.confidence)) > 1e-9:
                        found.append(('confidence-not-to-two-decimals', 'alignment confidence %r reads back as %r' % (row.confidence, b.confidence),
                                      'writer', {}))
            except Exception:
                pass
        found += [(s, 'records=%s %s' % (list(idxs), dt), 'reader', sig) for s, dt, sig in probs]
    if acc is not None:
        acc.evals += 1
        acc.transitions += 3
        acc.state(tuple(idxs))
        if len(idxs) <= 1 or any(len(CATALOGUE[i][2]) == 1 or CATALOGUE[i][4] for i in idxs) or len({CATALOGUE[i][1] for i in idxs}) > 1:
            acc.nontriv(tuple(idxs))
        acc.classes['records=%d' % len(idxs)] += 1
        case = dict(records=list(idxs))
        for f in found:
            acc.viol(f[0], case, f[1], f[2], f[3])
        acc.sample(case)
    return found


class Synthetic(core.Layer):
    name = 'A:synthetic'

    def __init__(self, maxrec):
        self.cases = [t for k in range(0, maxrec + 1) for t in itertools.product(range(len(CATALOGUE)), repeat=k)]
        self.chunk = 24
        self.bounds = dict(records=[0, maxrec], catalogue=[[c[0], c[1], c[2], '-' if c[3] else '+', c[4], c[5]] for c in CATALOGUE])
        self.rule = 'all %d tuples of 0..%d catalogue records' % (len(self.cases), maxrec)

    def nblocks(self):
        return (len(self.cases) + self.chunk - 1) // self.chunk

    def run_block(self, b, acc):
        for idxs in self.cases[b * self.chunk:(b + 1) * self.chunk]:
            acc.seq += 1
            check_case(idxs, acc)

    def replay(self, case):
        return check_case(tuple(case['records']), None)


def own_reader(ctx, mode, extra, obs):
    """inside the run's process: read every output file back with the XmapReader the Program itself holds (the one it wrote with)"""
    out = {}
    prog = obs.program
    if prog is None:
        return out
    for fk, p in obs.paths.items():
        try:
            with open(p) as f:
                back = prog.xmapReader.readAlignments(f)
            out[fk] = [[(x.reference.siteId, float(x.reference.position), x.query.siteId, float(x.query.position)) for x in b.alignedPairs]
                       for b in back]
        except Exception as e:
            out[fk] = 'exception: %s: %s' % (type(e).__name__, str(e)[:200])
    return out


def judge(ctx, mode, extra, obs, acc):
    found = e2e.judge_c18(ctx, mode, extra, obs, acc)
    for fk, got in sorted((obs.extra or {}).items()):
        recs = e2e.xmaptext.parse(obs.files.get(fk, ''))[2]
        if isinstance(got, str):
            found.append(('own-reader-exception', 'mode=%s file=%s %s' % (mode, fk, got), 'reader', dict(records=min(len(recs), 2))))
            continue
        if len(got) != len(recs):
            found.append(('own-reader-count', 'mode=%s file=%s: %d alignments for %d records' % (mode, fk, len(got), len(recs)), 'reader', {}))
            continue
        for pairs, r in zip(got, recs):
            rmap, qmap = ctx.rmaps.get(int(r['RefContigID'])), ctx.qmaps.get(int(r['QryContigID']))
            if rmap is None or qmap is None or not e2e.record_valid(r, rmap, qmap):
                continue
            if [(a, c) for a, b, c, d in pairs] != r['pairs']:
                found.append(('own-reader-pairs', 'mode=%s file=%s got %s expected %s' % (mode, fk, pairs[:3], r['pairs'][:3]), 'reader', {}))
            elif any(b != rmap[1][a - 1] or abs(d - (qmap[1][c - 1] - qmap[1][0])) > 1e-6 for a, b, c, d in pairs):
                found.append(('own-reader-pair-coordinates', 'mode=%s file=%s query %s: pair coordinates %s are not those of the maps that were '
                              'aligned' % (mode, fk, r['QryContigID'], pairs[:2]), 'reader', {}))
            if acc is not None:
                acc.classes['records-read-with-the-program-own-reader'] += 1
    return found


@core.guarded(lambda i, j, *a: dict(kind='rewrite', first=list(i), second=list(j)))
def check_rewrite(i, j, acc):
    """one reader object, one path: COMA writes records i there, the reader reads them, COMA writes records j to the SAME path, the
    same reader reads again (what happens when a command is repeated with other options, or a tool keeps its reader)"""
    from src.args import Args
    from src.parsers.xmap_reader import XmapReader
    from src.parsers.xmap_alignment_pair_parser import XmapAlignmentPairWithDistanceParser
    d = core.scratch_dir()
    rp, qp, op = os.path.join(d, 'r18.cmap'), os.path.join(d, 'q18.cmap'), os.path.join(d, 'rw18.xmap')
    with open(rp, 'w') as f:
        f.write(cmaptext.text(REFS))
    with open(qp, 'w') as f:
        f.write(cmaptext.text(QRY))
    refs, qs = _maps()
    found = []
    case = dict(kind='rewrite', first=list(i), second=list(j))
    readers = [XmapReader(), XmapReader(XmapAlignmentPairWithDistanceParser(list(refs.values()), list(qs.values())))]
    seen = []
    for step, idxs in enumerate((i, j)):
        rows = [build_row(CATALOGUE[k], refs, qs) for k in idxs]
        args = Args.parse(driver.cli_args(rp, qp, op, 'best'))
        try:
            XmapReader().writeAlignments(args.outputFile, AlignmentResults(rp, qp, rows), args)
        finally:
            for fobj in (args.referenceFile, args.queryFile, args.outputFile):
                fobj.close()
        from mc import xmaptext
        recs = xmaptext.parse(open(op).read())[2]
        for ri, rd in enumerate(readers):
            try:
                with open(op) as f:
                    back = rd.readAlignments(f)
                got = [(int(b.queryId), int(b.referenceId), [(x.reference.siteId, x.query.siteId) for x in b.alignedPairs]) for b in back]
            except Exception as e:
                found.append(('readback-exception', 'read %d: %s: %s' % (step + 1, type(e).__name__, str(e)[:200]), 'reader', dict(records=min(len(recs), 2))))
                continue
            exp = [(int(r['QryContigID']), int(r['RefContigID']), r['pairs']) for r in recs]
            if got != exp:
                found.append(('second-read-of-a-rewritten-path-returns-other-records' if step else 'readback-pairs',
                              'reader %d, read %d of the path: got %s, the file holds %s' % (ri, step + 1, got, exp), 'reader', {'read': step + 1}))
        seen.append(len(recs))
    if acc is not None:
        acc.evals += 1
        acc.transitions += 6
        acc.state(('rw', tuple(i), tuple(j)))
        if tuple(i) != tuple(j):
            acc.nontriv(('rw', tuple(i), tuple(j)))
        for f in found:
            acc.viol(f[0], case, f[1], f[2], f[3])
        acc.sample(case)
    return found


class Rewrite(core.Layer):
    name = 'seq2:rewrite'
    optional = False

    def __init__(self):
        singles = [()] + [(k,) for k in range(len(CATALOGUE))]
        self.cases = [(a, b) for a in singles for b in singles]
        self.chunk = 13
        self.bounds = dict(record_sets=len(singles), sequences=len(self.cases), readers=2)
        self.rule = 'every ordered pair of %d record sets (empty or one catalogue record) written to one path in turn, read after each write by the same two reader objects' % len(singles)

    def nblocks(self):
        return (len(self.cases) + self.chunk - 1) // self.chunk

    def run_block(self, b, acc):
        for a, c in self.cases[b * self.chunk:(b + 1) * self.chunk]:
            acc.seq += 1
            check_rewrite(a, c, acc)

    def replay(self, case):
        return check_rewrite(tuple(case['first']), tuple(case['second']), None)


class StdoutRuns(core.Layer):
    """`coma ... > out.xmap`: without -o the XMAP is what the process prints; a run that also has something to say about its input
    (a molecule that cannot be aligned) must still print a file that reads back"""
    name = 'C:stdout'
    optional = False

    def __init__(self, n):
        refs = e2e.std_refs()
        self.worlds = []
        for t in range(n):
            ok = [worlds.as_map(e2e.QIDS[j], worlds.window_query(refs[(t + j) % 3], 10 + 7 * j + t, 14 + j, bool((t + j) % 2))[0][2]) for j in range(3)]
            bad = [(5216, 5000.0, [100.0]), (8, 2000001.0, [0.0, 30000.0, 61000.0, 1000000.0, 1900000.0, 2000000.0])][:1 + t % 2]
            self.worlds.append(dict(refs=refs, queries=ok[:2 + t % 2] + bad))
        self.bounds = dict(worlds=n, modes=['best'], molecules_without_record=[1, 2])
        self.rule = '%d worlds with 1-2 molecules that get no record, run through the real CLI without -o; standard output is the XMAP' % n

    def nblocks(self):
        return len(self.worlds)

    def run_block(self, b, acc):
        acc.seq += 1
        found = self.run_item(self.worlds[b], acc)
        case = dict(world=worlds.jsonable(self.worlds[b]))
        for f in found:
            acc.viol(f[0], case, f[1], f[2], f[3])
        acc.sample(lambda: dict(world=b))

    def run_item(self, w, acc):
        found = []
        rc, err, files = driver.run_cli(w, 'best', cpus=2, to_stdout=True)
        rc2, err2, files2 = driver.run_cli(w, 'best', cpus=2)
        if rc != 0 or rc2 != 0:
            found.append(('cli-aborted', (err or err2)[-300:], 'cli', {}))
            return found
        ctx = e2e.RunCtx(w)
        probs, n = e2e.readback_problems(files['main'], e2e._coma_readers(ctx), ctx.rmaps, ctx.qmaps)
        for sym, detail, sig in probs:
            found.append((sym, 'standard output as XMAP: %s' % detail, 'reader', sig))
        if driver.strip_echo(files['main']) != driver.strip_echo(files2.get('main', '')):
            extra = [l for l in files['main'].splitlines() if l not in files2.get('main', '').splitlines() and not l.startswith('# ')]
            found.append(('stdout-differs-from-the-file-written-with-o', 'lines only on standard output: %s' % extra[:3], 'writer', {}))
        if acc is not None:
            acc.evals += 1
            acc.transitions += 2
            acc.state(('stdout', n))
            acc.nontriv(('stdout', len(w['queries']), n))
        return found

    def replay(self, case):
        w = case['world']
        return self.run_item(dict(refs=[tuple(m) for m in w['refs']], queries=[tuple(m) for m in w['queries']]), None)


def layers(tier, seed):
    ws = e2e.std_worlds(tier, seed, depth2=False)
    return [Synthetic(3 if tier == 'quick' else 4), Rewrite(), StdoutRuns(3 if tier == 'quick' else 12),
            e2e.WorldLayer('B:worlds', ws, judge, in_child=own_reader, bounds=dict(worlds=len(ws), modes=list(e2e.MODES)),
                           rule='every file (main,_1,_2) of every standard world x 4 modes, read back with both parsers and with the reader object the Program wrote it with')]
