"""C13 - segments are maximal positive-scoring runs that respect both thresholds.

S1 on AlignmentSegmentsFactory(minScore, breakSegmentThreshold).getSegments(positions, peak) with real
position objects: every score sequence up to a length bound over an 8-symbol alphabet, for 16 threshold pairs.
"""
import itertools

from mc import core
from mc.coma import (AlignmentSegmentsFactory, ScoredAlignedPair, AlignedPair, ScoredNotAlignedPosition,
                     NotAlignedReferencePosition, NotAlignedQueryPosition, PositionWithSiteId as P, Peak)

RULE = ("all sequences of scored positions up to the length bound over the alphabet {pair:+3,+2,+1,0,-1; unpaired:0,-1,-3} x 16 "
        "(minScore, breakSegmentThreshold) pairs; plus two-call sequences on one factory (first call: every sequence of length <= 2); non-trivial = a case in which a running sum hits a threshold equality "
        "(== minScore, == running max - break, == 0), or a run is rejected for minScore, or >= 2 segments are produced; "
        "distinct by (thresholds, sequence)")
ASSUMPTIONS = ["scores are small integers or multiples of 1/8 (sums are exact in binary floating point); scores that are not exactly representable are outside the alphabet",
               "reference scanner mc/props/c13.py:reference written from the property statement, shares no code with COMA"]

ALPHABET = [('P', 3), ('P', 2), ('P', 1), ('P', 0), ('P', -1), ('U', 0), ('U', -1), ('Q', -3)]
THRESHOLDS = [(ms, bs) for ms in (1, 2, 3, 4) for bs in (0, 1, 2, 5)]
PEAK = Peak(0, 1.0)


def make_position(k, sym):
    kind, v = sym
    if kind == 'P':
        return ScoredAlignedPair(AlignedPair(P(k + 1, k * 10), P(k + 1, k * 10)), v)
    if kind == 'U':
        return ScoredNotAlignedPosition(NotAlignedReferencePosition(P(k + 1, k * 10)), v)
    return ScoredNotAlignedPosition(NotAlignedQueryPosition(P(k + 1, k * 10), 0), v)


def reference(s, ms, bs):
    """Left-to-right scanner written from the statement.  Returns ([(start, end_exclusive)], flags)."""
    out = []
    n = len(s)
    i = 0
    eq = rejected = False
    while i < n:
        tot = 0
        runmax = 0
        best_end = None
        j = i
        while j < n:
            tot += s[j]
            if tot == 0 or tot == runmax - bs:
                eq = True
            if tot <= 0 or tot <= runmax - bs:
                break
            if tot > runmax:
                runmax = tot
                best_end = j
            j += 1
        if best_end is not None:
            if runmax == ms:
                eq = True
            if runmax >= ms:
                out.append((i, best_end + 1))
            else:
                rejected = True
        i = j + 1
    return out, eq, rejected


def observe(positions, segs):
    """Locate each returned segment in the input list by object identity."""
    out = []
    for sg in segs:
        if sg.empty:
            out.append(None)
            continue
        a = next((i for i, p in enumerate(positions) if p is sg.positions[0]), None)
        if a is None or len(sg.positions) > len(positions) - a or any(x is not y for x, y in zip(sg.positions, positions[a:])):
            out.append('not-a-run')
        else:
            out.append((a, a + len(sg.positions)))
    return out


def clauses(s, syms, positions, segs, spans, ms, bs):
    """The statement's clauses evaluated directly on the output; returns list of failed clause names."""
    bad = []
    real = [x for x in spans if x is not None]
    if 'not-a-run' in real:
        return ['contiguous-run']
    if not real:
        if not (len(segs) == 1 and segs[0].empty):
            bad.append('single-empty-segment')
        return bad
    if any(x is None for x in spans):
        bad.append('empty-among-nonempty')
    for (a0, a1), (b0, b1) in zip(real, real[1:]):
        if not b0 >= a1 + 1:
            bad.append('disjoint-ordered-separated')
    for sg, (a, e) in zip([g for g in segs if not g.empty], real):
        if not (syms[a][0] == 'P' and s[a] > 0 and syms[e - 1][0] == 'P' and s[e - 1] > 0):
            bad.append('starts-ends-on-positive-pair')
        tot = sum(s[a:e])
        if sg.segmentScore != tot:
            bad.append('score-is-sum')
        if tot < ms:
            bad.append('score>=minScore')
        run = 0
        runmax = 0
        for j in range(a, e):
            run += s[j]
            if run <= 0 or run <= runmax - bs:
                bad.append('forbidden-prefix')
                break
            if run >= tot and j < e - 1:
                bad.append('ends-at-first-argmax')
                break
            runmax = max(runmax, run)
        # not right-extendable to a higher score without violating a condition first
        run = tot
        runmax = tot
        for j in range(e, len(s)):
            run += s[j]
            if run <= 0 or run <= runmax - bs:
                break
            if run > tot:
                bad.append('right-extendable')
                break
    return bad


@core.guarded(lambda syms, ms, bs, acc=None, positions=None, before=None: dict(symbols=[list(x) for x in syms], minScore=ms, breakSegmentThreshold=bs, before=[list(x) for x in before] if before is not None else None))
def check_case(syms, ms, bs, acc, positions=None, before=None):
    s = [v for _, v in syms]
    if positions is None:
        positions = [make_position(k, sym) for k, sym in enumerate(syms)]
    factory = AlignmentSegmentsFactory(ms, bs)
    if before is not None:
        # operation sequence: an earlier getSegments call (another peak) on the SAME factory - the aligner keeps one per run
        factory.getSegments([make_position(k, sym) for k, sym in enumerate(before)], Peak(5, 2.0))
    segs = factory.getSegments(list(positions), PEAK)
    spans = observe(positions, segs)
    exp, eq, rejected = reference(s, ms, bs)
    got = [x for x in spans if x is not None]
    found = []
    if got != exp:
        found.append(('differs-from-reference', 'scores=%s ms=%s bs=%s got=%s expected=%s' % (s, ms, bs, got, exp),
                      'segments', {'ms_gt_bs': ms > bs}))
    for c in clauses(s, syms, positions, segs, spans, ms, bs):
        found.append(('clause:' + c, 'scores=%s kinds=%s ms=%s bs=%s got=%s' % (s, [k for k, _ in syms], ms, bs, got),
                      'segments', {'ms_gt_bs': ms > bs}))
    if acc is not None:
        acc.evals += 1
        acc.transitions += len(s) + 1
        runs = [x for x in got if isinstance(x, tuple)]       # a segment that is not a run of the list is reported by the clauses; it has no span
        acc.state((ms, bs, tuple((e - a, sum(s[a:e])) for a, e in runs), len(got) - len(runs), len(s) - (runs[-1][1] if runs else 0)))
        if eq or rejected or len(got) >= 2:
            acc.nontriv((ms, bs, tuple(syms)))
        acc.classes['segments=%d' % min(len(got), 3)] += 1
        if rejected:
            acc.classes['run-rejected-for-minScore'] += 1
        if eq:
            acc.classes['threshold-equality-hit'] += 1
        case = dict(symbols=[list(x) for x in syms], minScore=ms, breakSegmentThreshold=bs, before=[list(x) for x in before] if before is not None else None)
        for f in found:
            acc.viol(f[0], case, f[1], f[2], f[3])
        acc.sample(case)
    return found


class SeqLayer(core.Layer):
    """block = (threshold pair, 2-symbol prefix); enumerates every sequence with that prefix up to maxlen."""

    def __init__(self, name, maxlen, minlen=0, optional=False):
        self.name = name
        self.maxlen = maxlen
        self.minlen = minlen
        self.optional = optional
        self.prefixes = list(itertools.product(range(len(ALPHABET)), repeat=2))
        self.bounds = dict(max_length=maxlen, min_length=minlen, alphabet=[list(a) for a in ALPHABET],
                           thresholds=[list(t) for t in THRESHOLDS])
        self.rule = 'all sequences of length %d..%d x %d threshold pairs' % (minlen, maxlen, len(THRESHOLDS))

    def nblocks(self):
        return len(THRESHOLDS) * len(self.prefixes)

    def run_block(self, b, acc):
        ms, bs = THRESHOLDS[b // len(self.prefixes)]
        pi = b % len(self.prefixes)
        pre = [ALPHABET[i] for i in self.prefixes[pi]]
        # sequences shorter than the prefix length are attached to the first prefix blocks
        if pi == 0 and self.minlen <= 0:
            acc.seq += 1
            check_case([], ms, bs, acc)
        if pi < len(ALPHABET) and self.minlen <= 1 <= self.maxlen:
            acc.seq += 1
            check_case([ALPHABET[pi]], ms, bs, acc)
        for L in range(max(2, self.minlen), self.maxlen + 1):
            for tail in itertools.product(ALPHABET, repeat=L - 2):
                acc.seq += 1
                check_case(pre + list(tail), ms, bs, acc)

    def replay(self, case):
        if case.get('kind') == 'wiring':
            return Wiring(1).replay(case)
        return check_case([tuple(x) for x in case['symbols']], case['minScore'], case['breakSegmentThreshold'], None, None,
                          [tuple(x) for x in case['before']] if case.get('before') is not None else None)


class Dyadic(SeqLayer):
    """scores with three decimals that are exactly representable in binary (multiples of 1/8): any rounding of a segment score to
    fewer decimals, or any other non-exact arithmetic on it, shows while the reference scanner's float sums stay exact"""
    ALPHA = [('P', 1.625), ('P', 1.0), ('P', 0.375), ('P', -0.125), ('U', -0.625), ('Q', -1.0)]
    THR = [(ms, bs) for ms in (1.0, 2.0, 2.625) for bs in (0.0, 0.625, 2.0)]

    def __init__(self, name, maxlen, optional=False):
        SeqLayer.__init__(self, name, maxlen, optional=optional)
        self.prefixes = list(itertools.product(range(len(self.ALPHA)), repeat=2))
        self.bounds = dict(max_length=maxlen, alphabet=[list(a) for a in self.ALPHA], thresholds=[list(t) for t in self.THR])
        self.rule = 'all sequences of length 0..%d over a %d-symbol dyadic alphabet x %d threshold pairs' % (maxlen, len(self.ALPHA), len(self.THR))

    def nblocks(self):
        return len(self.THR) * len(self.prefixes)

    def run_block(self, b, acc):
        ms, bs = self.THR[b // len(self.prefixes)]
        pi = b % len(self.prefixes)
        pre = [self.ALPHA[i] for i in self.prefixes[pi]]
        if pi == 0:
            acc.seq += 1
            check_case([], ms, bs, acc)
        if pi < len(self.ALPHA):
            acc.seq += 1
            check_case([self.ALPHA[pi]], ms, bs, acc)
        for L in range(2, self.maxlen + 1):
            for tail in itertools.product(self.ALPHA, repeat=L - 2):
                acc.seq += 1
                check_case(pre + list(tail), ms, bs, acc)


class TwoCalls(SeqLayer):
    """two getSegments calls on ONE factory: every sequence of length <= 2 as first call x every sequence of length <= maxlen as second"""

    def __init__(self, name, maxlen, optional=False):
        SeqLayer.__init__(self, name, maxlen, optional=optional)
        self.firsts = [list(t) for n in (0, 1, 2) for t in itertools.product(ALPHABET, repeat=n)]
        self.bounds = dict(self.bounds, calls_per_factory=2, first_call_max_length=2)
        self.rule = '%d first calls x all sequences of length 0..%d as second call x %d threshold pairs, on one factory' % (len(self.firsts), maxlen, len(THRESHOLDS))

    def nblocks(self):
        return len(THRESHOLDS) * len(self.firsts)

    def run_block(self, b, acc):
        ms, bs = THRESHOLDS[b // len(self.firsts)]
        before = self.firsts[b % len(self.firsts)]
        for L in range(0, self.maxlen + 1):
            for seq in itertools.product(ALPHABET, repeat=L):
                acc.seq += 1
                check_case(list(seq), ms, bs, acc, None, before)


WIRING = [(700, 300, 900), (3000, 500, 1000), (1000, 1200, 500), (20000, 1200, 1000), (1, 0, 1000), (2, 2500, 3)]      # (-ms, -bs, -sp)


@core.guarded(lambda ms, bs, sp, syms, *a: dict(kind='wiring', minScore=ms, breakSegmentThreshold=bs, perfectMatchScore=sp, symbols=[list(x) for x in syms]))
def check_wiring(ms, bs, sp, syms, acc):
    """the factory the PROGRAM builds from `-ms X -bs Y` (with a different -sp) is driven with a score sequence scaled to X / Y: the
    thresholds that reach it are the ones given on the command line"""
    import os
    from mc import driver
    from src.args import Args
    from src.program import Program
    d = core.scratch_dir()
    w = dict(refs=[(1, 50000.0, [1000.0, 9000.0, 20000.0])], queries=[(2, 20000.0, [0.0, 8000.0, 19000.0])])
    rp, qp = driver.write_world(d, w)
    a = Args.parse(driver.cli_args(rp, qp, os.path.join(d, 'o13.xmap'), 'best', ['-ms', str(ms), '-bs', str(bs), '-sp', str(sp)]))
    try:
        prog = Program(a)
    finally:
        for fo in (a.referenceFile, a.queryFile, a.outputFile):
            fo.close()
    factory = prog.workflowCoordinator.aligner.segmentsFactory
    # symbols are (kind, multiple of the unit); unit = ms / 2, so that values 1..3 straddle minScore
    unit = ms / 2.0
    scaled = [(k, v * unit) for k, v in syms]
    positions = [make_position(k, sym) for k, sym in enumerate(scaled)]
    segs = factory.getSegments(list(positions), PEAK)
    spans = observe(positions, segs)
    s_ = [v for _, v in scaled]
    exp, eq, rejected = reference(s_, ms, bs)
    got = [x for x in spans if x is not None]
    found = []
    case = dict(kind='wiring', minScore=ms, breakSegmentThreshold=bs, perfectMatchScore=sp, symbols=[list(x) for x in syms])
    if got != exp:
        found.append(('program-built-factory-differs-from-reference', '-ms %s -bs %s -sp %s: scores %s got %s expected %s (factory holds minScore=%s, '
                      'breakSegmentThreshold=%s)' % (ms, bs, sp, s_, got, exp, getattr(factory, 'minScore', '?'), getattr(factory, 'breakSegmentThreshold', '?')),
                      'wiring', {}))
    if acc is not None:
        acc.evals += 1
        acc.transitions += len(syms) + 2
        acc.state(('w', ms, bs, tuple(got)))
        if rejected or eq:
            acc.nontriv(('w', ms, bs, sp, tuple(syms)))
        for f in found:
            acc.viol(f[0], case, f[1], f[2], f[3])
        acc.sample(case)
    return found


class Wiring(core.Layer):
    name = 'wiring:-ms,-bs'
    optional = False

    def __init__(self, maxlen):
        self.maxlen = maxlen
        self.alpha = [('P', 3), ('P', 2), ('P', 1), ('P', -1), ('U', -1)]
        self.bounds = dict(option_triples=[list(x) for x in WIRING], max_length=maxlen, alphabet=[list(a) for a in self.alpha])
        self.rule = '%d (-ms, -bs, -sp) triples x all sequences of length 1..%d over 5 symbols scaled to minScore/2, through the factory built by Program' % (len(WIRING), maxlen)

    def nblocks(self):
        return len(WIRING)

    def run_block(self, b, acc):
        ms, bs, sp = WIRING[b]
        for L in range(1, self.maxlen + 1):
            for seq in itertools.product(self.alpha, repeat=L):
                acc.seq += 1
                check_wiring(ms, bs, sp, list(seq), acc)

    def replay(self, case):
        return check_wiring(case['minScore'], case['breakSegmentThreshold'], case['perfectMatchScore'], [tuple(x) for x in case['symbols']], None)


def layers(tier, seed):
    if tier == 'quick':
        return [SeqLayer('L<=6', 6), Dyadic('dyadic,L<=6', 6), TwoCalls('seq2:L<=3', 3), Wiring(3)]
    return [SeqLayer('L<=6', 6), Dyadic('dyadic,L<=7', 7), TwoCalls('seq2:L<=4', 4), Wiring(4), SeqLayer('L=7', 7, minlen=7), SeqLayer('L=8', 8, minlen=8, optional=True)]
