"""C05 - at most one record per query: the best-scoring candidate, in query-id order (S2 with dispatcher observation)."""
from mc import core, e2e, sink, xmaptext

RULE = ("multi-query worlds (3-5 queries with unsorted ids: plain windows on 3 references and both strands, chimeric/indel/partial "
        "queries that yield second-pass records, unalignable molecules) x peaksCount {1,2,3,5} x 4 modes; candidates and seeds of "
        "every query observed through the extension dispatcher; non-trivial = a query with >= 2 candidates that have pairs and "
        "distinct confidences; distinct by (world, peaksCount, mode, query)")
ASSUMPTIONS = ["exact confidence ties: any maximal candidate is accepted", "exact seed-score ties at the peaksCount boundary are not judged",
               "first- and second-pass candidates are separated by the pool map call they occur in (marker written by the stand-in pool)"]


def split_passes(events):
    passes, cur = [], None
    for ev in events:
        if ev[0] == 'map':
            cur = []
            passes.append(cur)
        elif cur is not None:
            cur.append(ev)
    return passes


def judge(ctx, mode, extra, obs, acc):
    found = []
    pc = int(dict(zip(extra[::2], extra[1::2])).get('-p', 3))
    files = {fk: xmaptext.parse(t)[2] for fk, t in obs.files.items()}
    for fk, recs in files.items():
        if mode == 'joined' and fk != 'main':
            continue        # joined._1 holds the un-joined rows of BOTH passes; the property does not limit it
        ids = [r['QryContigID'] for r in recs]
        if len(set(ids)) != len(ids):
            found.append(('more-than-one-record-per-query', 'mode=%s file=%s ids=%s' % (mode, fk, ids), 'output', {}))
    passes = split_passes(obs.events)
    first = passes[0] if passes else []
    cands, seeds = {}, {}
    for ev in first:
        if ev[0] == 'cands' and ev[1]:
            cands.setdefault(ev[1][0]['query'], []).extend(ev[1])
        elif ev[0] == 'seeds':
            seeds.setdefault(ev[1], []).extend((p[1], ev[3], ev[4]) for p in ev[5])
    fp_file = {'separate': 'main', 'all': '_1'}.get(mode)
    seen = {}
    for ev in first:
        if ev[0] == 'seeds':
            seen.setdefault(ev[1], {}).setdefault(ev[3], 0)
            seen[ev[1]][ev[3]] += 1
            # per correlation at most peaksCount peaks are kept, and they are the HIGHEST ones
            kept = sorted((p[2] for p in ev[5]), reverse=True)
            if len(kept) > pc:
                found.append(('more-seed-peaks-than-peaksCount-from-one-correlation', 'query %s reference %s: %d peaks, -p %d' % (ev[1], ev[3], len(kept), pc),
                              'selection', {}))
            if len(ev) > 6 and ev[6] is not None and '-md' not in extra:
                want = ev[6][:min(pc, len(ev[6]))]
                if len(ev[6]) < 40 and [round(x, 9) for x in kept] != [round(x, 9) for x in want]:
                    found.append(('kept-peaks-are-not-the-highest', 'query %s reference %s strand %s -p %d: kept heights %s, all peak heights %s' % (
                        ev[1], ev[3], '-' if ev[4] else '+', pc, kept, ev[6]), 'selection', {}))
                if acc is not None and len(ev[6]) > pc:
                    acc.classes['correlations-with-more-peaks-than-peaksCount'] += 1
    # every selected seed gets ITS OWN refinement: the i-th refined correlation belongs to the i-th best seed (same reference and strand)
    # and its best peak lies within the secondary margin of that seed
    margin = int(dict(zip(extra[::2], extra[1::2])).get('-ma', 16000))
    refined, seedpos = {}, {}
    for ev in first:
        if ev[0] == 'refined':
            refined.setdefault(ev[1], {})[ev[5]] = ev
        elif ev[0] == 'seeds':
            seedpos.setdefault(ev[1], []).extend((p[1], ev[3], ev[4], p[0]) for p in ev[5])
    for qid, byidx in refined.items():
        sd = sorted(seedpos.get(qid, []), reverse=True)
        top = sd[:pc]
        if len({x[0] for x in sd[:pc + 1]}) != len(sd[:pc + 1]):
            continue        # exact score ties: the order is not determined
        if sorted(byidx) != list(range(len(top))):
            found.append(('not-every-selected-seed-is-refined', 'query %s -p %d: refined correlations with indices %s for %d selected seeds' % (
                qid, pc, sorted(byidx), len(top)), 'selection', {}))
            continue
        for i, (score, rid, rev, pos) in enumerate(top):
            ev = byidx[i]
            if (ev[3], ev[4]) != (rid, rev):
                found.append(('refinement-belongs-to-another-seed', 'query %s seed %d is on reference %s strand %s, its refined correlation on %s %s' % (
                    qid, i, rid, '-' if rev else '+', ev[3], '-' if ev[4] else '+'), 'selection', {}))
                break
            if ev[6]:
                best = max(ev[6], key=lambda p: p[1])
                if abs(best[0] - pos) > margin + 3000:
                    found.append(('refinement-belongs-to-another-seed', 'query %s seed %d at %s bp on reference %s: the best peak of its refined correlation '
                                  'is at %s bp (secondary margin %d)' % (qid, i, pos, rid, best[0], margin), 'selection', {}))
                    break
        if acc is not None and len({(x[1], x[2]) for x in top}) < len(top):
            acc.classes['queries-with-two-selected-seeds-on-one-reference-and-strand'] += 1
    for qid in ctx.qmaps:
        # candidates are built "over all references and both strands": every query is correlated with every reference twice
        if first and {r: seen.get(qid, {}).get(r, 0) for r in ctx.rmaps} != {r: 2 for r in ctx.rmaps}:
            found.append(('query-not-correlated-with-every-reference-and-strand', 'query %s: correlations per reference %s, references %s' % (
                qid, seen.get(qid, {}), sorted(ctx.rmaps)), 'selection', {}))
        cl = cands.get(qid, [])
        good = [c for c in cl if c['pairs']]
        if len(cl) > pc:
            found.append(('more-candidates-than-peaksCount', 'query %s: %d candidates, -p %d' % (qid, len(cl), pc), 'selection', {}))
        sd = sorted(seeds.get(qid, []), reverse=True)
        if cl and sd and not (len(sd) > pc and sd[pc - 1][0] == sd[pc][0]):
            want = sorted((s[1], s[2]) for s in sd[:pc])
            got = sorted((c['reference'], c['reverse']) for c in cl)
            if want != got and len({s[0] for s in sd[:pc]}) == len(sd[:pc]):
                found.append(('seeds-are-not-the-top-peaks', 'query %s -p %d: candidates on %s, top peaks on %s' % (qid, pc, got, want),
                              'selection', {}))
        if fp_file is not None:
            mine = [r for r in files.get(fp_file, []) if r['QryContigID'] == str(qid)]
            if not good:
                if mine:
                    found.append(('record-without-candidate', 'query %s mode %s' % (qid, mode), 'selection', {}))
            elif not mine:
                found.append(('first-pass-record-missing', 'query %s mode %s candidates %s' % (qid, mode, [c['confidence'] for c in good]),
                              'selection', {}))
            elif mine[0]['Confidence'] != '%.2f' % max(c['confidence'] for c in good):
                found.append(('record-is-not-the-best-candidate', 'query %s mode %s: record %s, candidates %s' % (
                    qid, mode, mine[0]['Confidence'], sorted(c['confidence'] for c in good)), 'selection', {}))
            else:
                best = max(good, key=lambda c: c['confidence'])
                if mine[0]['pairs'] != best['pairs'] and sum(1 for c in good if c['confidence'] == best['confidence']) == 1:
                    found.append(('record-pairs-differ-from-best-candidate', 'query %s' % qid, 'selection', {}))
        if acc is not None and len(good) >= 2 and len({c['confidence'] for c in good}) > 1:
            acc.nontriv((ctx.key, pc, mode, qid))
            acc.classes['queries-with-competing-candidates'] += 1
    if mode == 'best':
        ids = [int(r['QryContigID']) for r in files.get('main', [])]
        if ids != sorted(ids):
            found.append(('best-not-in-ascending-query-id-order', str(ids), 'output', {}))
        ctx.best_ids = ids
    if mode == 'all':
        ctx.any_ids = sorted({int(r['QryContigID']) for fk in ('_1', '_2') for r in files.get(fk, [])})
    if hasattr(ctx, 'best_ids') and hasattr(ctx, 'any_ids') and mode == 'best':
        if sorted(ctx.best_ids) != ctx.any_ids:
            found.append(('best-ids-differ-from-queries-with-any-alignment', 'best %s, any %s' % (ctx.best_ids, ctx.any_ids), 'output', {}))
    if acc is not None:
        acc.classes['second-pass-records'] += sum(1 for fk, recs in files.items() for r in recs if r.get('AlignedRest') == 'True')
    return found


class Rerun(core.Layer):
    """the same command twice into the same -o path (real CLI): every file of the second run still has at most one record per query"""
    name = 'rerun'
    optional = False

    def __init__(self, ws):
        self.worlds = ws
        self.items = [(wi, m) for wi in range(len(ws)) for m in ('all', 'separate', 'joined')]
        self.bounds = dict(worlds=len(ws), modes=['all', 'separate', 'joined'], runs_per_item=2)
        self.rule = '%d worlds x 3 modes, each run twice into the same output path' % len(ws)

    def nblocks(self):
        return len(self.items)

    def run_block(self, b, acc):
        wi, mode = self.items[b]
        acc.seq += 1
        found = self.run_item(self.worlds[wi], mode, acc)
        case = dict(world=e2e.worlds.jsonable(self.worlds[wi]), mode=mode)
        for f in found:
            acc.viol(f[0], case, f[1], f[2], f[3])
        acc.sample(lambda: dict(world=wi, mode=mode))

    def run_item(self, w, mode, acc):
        import os
        from mc import driver
        d = os.path.join(core.scratch_dir(), 'rerun-%d' % os.getpid())
        os.makedirs(d, exist_ok=True)
        found = []
        rc, err, files = driver.run_cli(w, mode, cpus=2, directory=d)
        if rc == 0:
            rc, err, files = driver.run_cli(w, mode, cpus=2, directory=d, keep_outputs=True)
        if rc != 0:
            return [('run-aborted', err[-300:], 'cli', {})]
        for fk, txt in sorted(files.items()):
            if mode == 'joined' and fk != 'main':
                continue
            ids = [r['QryContigID'] for r in xmaptext.parse(txt)[2]]
            if len(set(ids)) != len(ids):
                found.append(('more-than-one-record-per-query', 'mode=%s file=%s after the second run: ids %s' % (mode, fk, ids), 'output', {'rerun': True}))
        if acc is not None:
            acc.evals += 1
            acc.transitions += 2
            acc.state(('rerun', mode, tuple(sorted((k, len(xmaptext.parse(t)[2])) for k, t in files.items()))))
            acc.nontriv(('rerun', mode, len(w['queries'])))
        return found

    def replay(self, case):
        w = case['world']
        return self.run_item(dict(refs=[tuple(m) for m in w['refs']], queries=[tuple(m) for m in w['queries']]), case['mode'], None)


def layers(tier, seed):
    n = 24 if tier == 'quick' else 300
    refs, pool, sets = e2e.query_sets(n, 'c05')
    if tier != 'quick' or seed:
        sets = sets + e2e.query_sets(2 if tier == 'quick' else 40, 'c05-seed-%d' % seed)[2]
    ws = [e2e.set_world(refs, pool, s, nrefs=(3, 2, 3, 1)[i % 4], short_ref=i % 3 == 1, ref_ids=(17, 4, 9) if i % 4 == 2 else None) for i, s in enumerate(sets)]
    # a reference with nine tandem copies of a 16.8 kb unit: one correlation then has many more peaks than peaksCount
    from mc.props import c11
    tr = c11.tandem_ref()
    ws.append(dict(refs=[tr, refs[0]], queries=[e2e.worlds.as_map(e2e.QIDS[j], e2e.worlds.window_query(tr, st, 14, rv)[0][2])
                                                for j, (st, rv) in enumerate(((19, False), (24, True), (30, False), (4, False)))],
                   desc=['tandem-repeat reference'] * 4))
    # tight references (one flanking label on either side of the molecule cut from them): a strand's correlation often has no peak
    from mc.props import c16
    ws += [w for w in c16.seed_layer(tier, seed).worlds if w.get('planted')][:6 if tier == 'quick' else None]
    extras = tuple(('-p', str(p)) for p in (1, 2, 3, 5))
    return [e2e.WorldLayer('worlds', ws, judge, extras=extras, extensions=[sink.Candidates, sink.Seeds, sink.Refined],
                           bounds=dict(worlds=len(ws), peaksCount=[1, 2, 3, 5], modes=list(e2e.MODES), queries_per_world=[3, 5], references=[1, 3]),
                           rule='%d multi-query worlds x 4 peaksCount x 4 modes' % len(ws), cli_every=0),
            Rerun(ws[:2] if tier == 'quick' else ws[:8])]
