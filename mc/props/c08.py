"""C08 - output modes agree; joined records are justified by and faithful to their parts (S2, four modes on identical inputs)."""
from mc import core, e2e, xmaptext
from mc.oracles import matching_problems

RULE = ("join-provoking multi-query worlds (partial, chimeric at gaps 2100/5600/28000/140000/true gap, other strand, other reference, "
        "indel-bearing queries) x maxDifference {0, 20000, 100000, 500000} x the four multi-pass modes run on byte-identical inputs; "
        "non-trivial = the world produced a joined record; distinct by (world, maxDifference)")
ASSUMPTIONS = ["records are compared as field tuples without XmapEntryID", "reference gap = |max(RefStartA, RefStartB) - min(RefEndA, RefEndB)| "
               "computed from the written one-decimal coordinates"]


def judge(ctx, mode, extra, obs, acc):
    # the cross-mode comparison runs once, after the last mode of the world ('best' is last in e2e.MODES order)
    if mode != e2e.MODES[-1] or any(m not in ctx.obs or ctx.obs[m].error for m in ('all', 'joined', 'separate')):
        return []
    diff = float(dict(zip(extra[::2], extra[1::2])).get('-diff', 100000))
    F = {m: {fk: xmaptext.parse(t)[2] for fk, t in ctx.obs[m].files.items()} for m in ('all', 'joined', 'separate')}
    key = xmaptext.record_key
    found = []

    def bad(sym, detail, locus='modes', sig=None):
        found.append((sym, detail, locus, sig or {}))

    def keys(m, fk):
        return [key(r) for r in F[m].get(fk, [])]
    for fk in ('main', '_1', '_2'):
        if fk not in F['all']:
            bad('all-mode-file-missing', fk)
    if '_1' not in F['joined'] or '_1' not in F['separate']:
        bad('additional-file-missing', 'joined %s separate %s' % (sorted(F['joined']), sorted(F['separate'])))
    if keys('all', 'main') != keys('joined', 'main'):
        bad('all.main!=joined.main', '%s vs %s' % (keys('all', 'main'), keys('joined', 'main')))
    if keys('all', '_1') != keys('separate', 'main'):
        bad('all._1!=separate.main', '%s vs %s' % (keys('all', '_1'), keys('separate', 'main')))
    if keys('all', '_2') != keys('separate', '_1'):
        bad('all._2!=separate._1', '%s vs %s' % (keys('all', '_2'), keys('separate', '_1')))
    if any(r['AlignedRest'] != 'False' for r in F['all'].get('_1', [])) or any(r['AlignedRest'] != 'True' for r in F['all'].get('_2', [])):
        bad('AlignedRest-flag', 'all._1 %s all._2 %s' % ([r['AlignedRest'] for r in F['all'].get('_1', [])],
                                                        [r['AlignedRest'] for r in F['all'].get('_2', [])]))
    joined = F['joined'].get('main', [])
    unjoined = keys('joined', '_1')
    jcount = {}
    for j in joined:
        jcount[j['QryContigID']] = jcount.get(j['QryContigID'], 0) + 1
    single = [(r, '_1') for r in F['all'].get('_1', [])] + [(r, '_2') for r in F['all'].get('_2', [])]
    for r, fk in single:
        n = jcount.get(r['QryContigID'], 0)
        if key(r) in unjoined:
            if n != 0:
                bad('single-pass-record-both-unjoined-and-joined', 'query %s' % r['QryContigID'], 'join')
        elif n != 1:
            bad('single-pass-record-neither-unjoined-nor-in-one-joined-record', 'query %s (%s) joined records %d' % (r['QryContigID'], fk, n), 'join')
    if sorted(unjoined) != sorted(k for k in (key(r) for r, _ in single) if k in unjoined) or any(k not in [key(r) for r, _ in single] for k in unjoined):
        bad('unjoined-file-has-foreign-record', '', 'join')
    for j in joined:
        A = [r for r in F['all'].get('_1', []) if r['QryContigID'] == j['QryContigID']]
        Bs = [r for r in F['all'].get('_2', []) if r['QryContigID'] == j['QryContigID']]
        sig = {'strand': j['Orientation']}
        if len(A) != 1 or len(Bs) != 1:
            bad('joined-record-without-exactly-one-part-per-pass', 'query %s: %d first-pass, %d second-pass' % (j['QryContigID'], len(A), len(Bs)), 'join', sig)
            continue
        a, b = A[0], Bs[0]
        if not (a['RefContigID'] == b['RefContigID'] == j['RefContigID'] and a['Orientation'] == b['Orientation'] == j['Orientation']):
            bad('joined-across-reference-or-strand', 'J %s A %s B %s' % (j['_fields'][1:8], a['_fields'][1:8], b['_fields'][1:8]), 'join', sig)
            continue
        gap = abs(max(float(a['RefStartPos']), float(b['RefStartPos'])) - min(float(a['RefEndPos']), float(b['RefEndPos'])))
        if gap > diff:
            bad('joined-beyond-maxDifference', 'gap %s > %s' % (gap, diff), 'join', sig)
        pj, pa, pb = j['pairs'] or [], a['pairs'] or [], b['pairs'] or []
        union = sorted(set(pa) | set(pb))
        if not set(pj) <= set(union):
            bad('joined-pairs-not-subset-of-parts', 'J %s A %s B %s' % (pj, pa, pb), 'join', sig)
        else:
            rmap, qmap = ctx.rmaps.get(int(j['RefContigID'])), ctx.qmaps.get(int(j['QryContigID']))
            ok = rmap and qmap and not matching_problems(union, len(rmap[1]), 1, len(qmap[1]), j['Orientation'] == '-')
            if ok and pj != union:
                # which pairs were dropped?  'tail-of-parts' = exactly a tail (in listed order) of one or both parts is missing and
                # nothing else differs - the shape produced by joining only the first segment of each record (finding F9)
                missing = [x for x in union if x not in pj]
                ta = [x for x in pa if x in missing]
                tb = [x for x in pb if x in missing]
                tails = (ta == pa[len(pa) - len(ta):]) and (tb == pb[len(pb) - len(tb):]) and set(ta) | set(tb) == set(missing) \
                    and len(ta) < len(pa) and len(tb) < len(pb)      # proper tails: each part keeps at least its first segment
                bad('joined-record-is-not-the-valid-union', 'J %s union %s (A %s B %s)' % (pj, union, pa, pb), 'join',
                    dict(sig, dropped='tail-of-parts' if tails else 'other'))
            if acc is not None:
                acc.classes['joined-with-valid-union' if ok else 'joined-with-conflicting-parts'] += 1
    if acc is not None:
        acc.classes['joined-records'] += len(joined)
        acc.classes['second-pass-records'] += len(F['all'].get('_2', []))
        if joined:
            acc.nontriv((ctx.key,))
    return found


@core.guarded(lambda c, *a: dict(kind='join', case=__import__('mc.joinseam', fromlist=['x']).describe(c)))
def check_join(c, acc):
    """the join step alone (mc/joinseam.py): eligibility, subset and union clauses on rows the real aligner built"""
    from mc import joinseam
    o = joinseam.run(c)
    md = c[5]
    found = []
    case = dict(kind='join', case=joinseam.describe(c))
    sig = {'strand': '-' if c[4] else '+'}
    if o['second']:
        pa, pb = o['first'], o['second'][0]
        ref = [x * joinseam.SCALE for x in joinseam.REF]
        sa, ea, sb, eb = ref[pa[0][0] - 1], ref[pa[-1][0] - 1], ref[pb[0][0] - 1], ref[pb[-1][0] - 1]
        gap = abs(max(sa, sb) - min(ea, eb))
        if len(o['joined']) > 1:
            found.append(('more-than-one-joined-record', str(o['joined']), 'join', sig))
        for j in o['joined'][:1]:
            if gap > md:
                found.append(('joined-beyond-maxDifference', 'gap %s > %s' % (gap, md), 'join', sig))
            pj = j['pairs']
            union = sorted(set(pa) | set(pb))
            if not set(pj) <= set(union):
                found.append(('joined-pairs-not-subset-of-parts', 'J %s A %s B %s' % (pj, pa, pb), 'join', sig))
            elif not matching_problems(union, len(joinseam.REF), 1, o['n'], c[4]) and pj != union:
                found.append(('joined-record-is-not-the-valid-union', 'J %s union %s' % (pj, union), 'join', dict(sig, dropped='other')))
            if o['separate']:
                found.append(('single-pass-record-both-unjoined-and-joined', str(o['separate']), 'join', sig))
        if not o['joined'] and sorted(map(tuple, o['separate'])) != sorted(map(tuple, [pa, pb])):
            found.append(('single-pass-record-neither-unjoined-nor-in-one-joined-record', 'separate %s' % o['separate'], 'join', sig))
    if acc is not None:
        acc.evals += 1
        acc.transitions += 2 + len(o['second']) + len(o['joined'])
        acc.state(('j', len(o['first']), tuple(len(x) for x in o['second']), tuple(len(j['pairs']) for j in o['joined'])))
        if o['joined']:
            acc.nontriv(('j',) + tuple(c))
        acc.classes['join-seam:joined' if o['joined'] else ('join-seam:two-rows-not-joined' if o['second'] else 'join-seam:one-row')] += 1
        for f in found:
            acc.viol(f[0], case, f[1], f[2], f[3])
        acc.sample(case)
    return found


class JoinSeam(core.Layer):
    name = 'S1:join-seam'
    optional = False

    def __init__(self):
        from mc import joinseam
        self.cases = joinseam.cases()
        self.chunk = 12
        self.bounds = dict(cases=len(self.cases), parts=[joinseam.N1, list(joinseam.N2S)], placements='collinear with 0/1/3/6 labels between, transposed with 0/1/3',
                           gaps=['true', 'insertion', 'small'], strands=['+', '-'], maxDifference=[0, 4000, 1000000], junk_labels=[0, 2])
        self.rule = '%d two-part lattice molecules through align / getUnalignedFragments / align / AlignmentResults.resolve' % len(self.cases)

    def nblocks(self):
        return (len(self.cases) + self.chunk - 1) // self.chunk

    def run_block(self, b, acc):
        for c in self.cases[b * self.chunk:(b + 1) * self.chunk]:
            acc.seq += 1
            check_join(c, acc)

    def replay(self, case):
        c = case['case']
        return check_join((c['first_pass_part'][0], c['other_part'][0], c['first_pass_part_leads'], c['gap'], c['reverse'], c['maxDifference'],
                           c.get('junk', 0), c['other_part'][1]), None)


def layers(tier, seed):
    n = 30 if tier == 'quick' else 400
    refs, pool, sets = e2e.query_sets(n, 'c08', size=(3, 4))
    if tier != 'quick' or seed:
        sets = sets + e2e.query_sets(3 if tier == 'quick' else 40, 'c08-seed-%d' % seed, size=(3, 4))[2]
    ws = [e2e.set_world(refs, pool, s, nrefs=(3, 1, 2)[i % 3], ref_ids=(17, 4, 30) if i % 4 == 1 else None) for i, s in enumerate(sets)]
    # runs in which NO molecule leaves anything for the second pass (plain windows only; one molecule only): the join step gets nothing
    # to join, and every mode must still write all of its files
    plain = [i for i, (nm, _) in enumerate(pool) if nm.startswith('plain')]
    ws.append(e2e.set_world(refs, pool, plain[:3], nrefs=3))
    ws.append(e2e.set_world(refs, pool, plain[3:4], nrefs=1))
    ws.append(e2e.set_world(refs, pool, [plain[5], plain[1]], nrefs=2, ref_ids=(17, 4, 30)))
    extras = tuple(('-diff', str(d)) for d in (0, 20000, 100000, 500000))
    return [JoinSeam(), e2e.WorldLayer('worlds', ws, judge, extras=extras,
                           bounds=dict(worlds=len(ws), maxDifference=[0, 20000, 100000, 500000], modes=list(e2e.MODES)),
                           rule='%d worlds x 4 maxDifference values x 4 modes' % len(ws))]
