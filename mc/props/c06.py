"""C06 - a noise-free copy of an interior reference region is placed exactly (S2, zero deviations).

Every interior window (>= 4 labels from either end) of every catalogue reference, both strands, is planted as a query and must be
reported on that reference and strand with exactly the true label pairs, HitEnum = <n>M, every pair within 200 bp of the seed
diagonal.  Default parameters, every output mode.
"""
from mc import core, worlds, driver, xmaptext

RULE = ("catalogue references (66-72 labels; families menu / exp / uniform; spacing >= 2 kb, mean >= 9 kb; window-unique) x every "
        "window length in the tier's menu x every start with >= 4 labels on both sides x strand x offset x trailing x mode; queries "
        "packed 4 per run with distinct ids; non-trivial = every case (each plants a different window); distinct by (reference, "
        "start, length, strand, offset, mode)")
ASSUMPTIONS = ["references without a unique truth (two windows of >= 6 gaps agreeing within 400 bp) are outside the explored domain",
               "VERIF_SEED selects one extra catalogue reference; it never samples inside a reference"]
THOROUGH_CAP_S = 2400.0
FAMILIES = ['menu', 'exp', 'uniform', 'menu', 'exp', 'uniform', 'menu', 'exp']
QIDS = (30, 4, 17, 9)


def reference(k, seed_extra=None):
    if k == 'dense':
        return worlds.catalogue_ref(7, 'menu', 66, ref_id=12, dense_head=True)
    if seed_extra is not None:
        return worlds.catalogue_ref(100 + seed_extra, FAMILIES[seed_extra % 3], 68, ref_id=11)
    return worlds.catalogue_ref(k, FAMILIES[k], 66 + (k * 2) % 7, ref_id=(1, 24, 3, 117, 2, 8, 5, 40)[k], decimals=k % 2 == 1)


def check_world(ref, plants, mode, acc, key=None):
    """plants: [(start, length, reverse, offset, trailing)] (<= 4)"""
    queries, truths = [], {}
    for j, (s, l, rev, off, tr) in enumerate(plants):
        q, truth = worlds.window_query(ref, s, l, rev, off, tr, qid=QIDS[j])
        queries.append(q)
        truths[QIDS[j]] = (truth, rev, l)
    w = dict(refs=[ref], queries=queries)
    def far_pairs(o):
        return [(int(row.queryId), [p.queryShift for p in row.alignedPairs if abs(p.queryShift) > 200][:5])
                for row in (o.result.rows if o.result is not None else [])]
    obs = driver.run_world(w, mode, in_child=far_pairs)
    found = []
    case = dict(reference=[ref[0], ref[1], list(ref[2])], plants=[list(p) for p in plants], mode=mode)
    if obs.error:
        found.append(('run-aborted', obs.error, 'run', {}))
    else:
        where = 'main' if mode in ('best', 'separate') else '_1'
        recs = xmaptext.parse(obs.files.get(where, ''))[2]
        others = [(k, r) for k, t in obs.files.items() if k != where for r in xmaptext.parse(t)[2]]
        for qid, (truth, rev, l) in truths.items():
            sig = {'strand': '-' if rev else '+'}
            mine = [r for r in recs if r['QryContigID'] == str(qid)]
            if len(mine) != 1:
                found.append(('not-exactly-one-record', 'query %d (window %s): %d records in %s.%s' % (qid, truth[0], len(mine), mode, where),
                              'placement', sig))
                continue
            r = mine[0]
            if r['RefContigID'] != str(ref[0]) or r['Orientation'] != ('-' if rev else '+'):
                found.append(('wrong-reference-or-strand', str(r['_fields'][:10]), 'placement', sig))
            elif r['pairs'] != truth:
                found.append(('pairs-differ-from-truth', 'got %s expected %s' % (r['pairs'], truth), 'placement', sig))
            elif r['HitEnum'] != '%dM' % l:
                found.append(('hitenum-has-gaps', r['HitEnum'], 'placement', sig))
            extra = [k for k, o in others if o['QryContigID'] == str(qid)]
            if extra:
                found.append(('extra-record-in-other-file', 'query %d also in %s (mode %s)' % (qid, extra, mode), 'placement', sig))
        if mode in ('best', 'separate'):
            for qid, far in (obs.extra or []):
                if far:
                    found.append(('pair-beyond-200bp-of-seed-diagonal', 'query %s shifts %s' % (qid, far), 'placement', {}))
    if acc is not None:
        acc.evals += 1
        acc.transitions += 3 + sum(obs.map_calls)
        for (s, l, rev, off, tr) in plants:
            acc.nontriv((ref[0], s, l, rev, off, mode))
            acc.state((l, rev, mode, not found))
            acc.classes['planted-windows'] += 1
        for f in found:
            acc.viol(f[0], case, f[1], f[2], f[3])
        acc.sample(lambda: dict(reference='id %d, %d labels' % (ref[0], len(ref[2])), plants=[list(p) for p in plants], mode=mode))
    return found


class Windows(core.Layer):
    def __init__(self, name, ref, lengths, offsets, all_modes, optional=False, product=True, max_start=None):
        self.name, self.optional, self.ref = name, optional, ref
        n = len(ref[2])
        plants = []
        for l in lengths:
            for s in range(4, (n - 4 - l + 1) if max_start is None else min(max_start + 1, n - 4 - l + 1)):
                for rev in (False, True):
                    for off in (offsets if product else (offsets[(s + l + rev) % len(offsets)],)):
                        plants.append((s, l, rev, off, (0.0, 2500.0)[(s + l) % 2]))
        self.groups = [plants[i:i + 4] for i in range(0, len(plants), 4)]
        self.all_modes = all_modes
        self.bounds = dict(reference_id=ref[0], labels=n, window_lengths=list(lengths), starts='every start with >=4 labels on both sides',
                           strands=['+', '-'], offsets=list(offsets), offsets_crossed=product, trailing=[0, 2500],
                           modes='all four on every group' if all_modes else 'best on every group, the other three on every 4th group')
        self.rule = '%d planted windows in %d runs' % (len(plants), len(self.groups))

    def nblocks(self):
        return len(self.groups)

    def run_block(self, b, acc):
        modes = ('best', 'separate', 'joined', 'all') if (self.all_modes or b % 4 == 0) else ('best',)
        for mode in modes:
            acc.seq += 1
            check_world(self.ref, self.groups[b], mode, acc)

    def replay(self, case):
        r = case['reference']
        return check_world((r[0], r[1], r[2]), [tuple(p) for p in case['plants']], case['mode'], None)


def layers(tier, seed):
    both = (0.0, 777.7)
    if tier == 'quick':
        ls = (15, 16, 23, 30, 45)
        return [Windows('ref0', reference(0), ls, both, False, product=False), Windows('ref1', reference(1), ls, both, False, product=False),
                Windows('dense-head', reference('dense'), (15, 22), both, False, product=False, max_start=9),
                Windows('seed-ref', reference(0, seed % 50), (15, 45), both, False, product=False)]
    ls = tuple(range(15, 46))
    out = [Windows('ref%d' % k, reference(k), ls, both if k < 2 else (777.7,), True, optional=k >= 3) for k in range(8)]
    out.insert(2, Windows('dense-head', reference('dense'), ls, both, True, max_start=12))
    out.insert(4, Windows('seed-ref', reference(0, seed % 50), ls, (777.7,), True))
    return out
