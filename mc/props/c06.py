"""C06 - a noise-free copy of an interior reference region is placed exactly (S2, zero deviations).

Every interior window (>= 4 labels from either end) of every catalogue reference, both strands, is planted as a query and must be
reported on that reference and strand with exactly the true label pairs, HitEnum = <n>M, every pair within 200 bp of the seed
diagonal.  Default parameters, every output mode.
"""
from mc import core, worlds, driver, xmaptext

RULE = ("catalogue references (66-72 labels; families menu / exp / uniform; spacing >= 2 kb, mean >= 9 kb; window-unique) x every "
        "window length in the tier's menu x every start with >= 4 labels on both sides x strand x offset x trailing x mode; queries "
        "packed 4 per run with distinct ids; non-trivial = every case (each plants a different window); distinct by (reference, "
        "start, length, strand, offset, mode)")
ASSUMPTIONS = ["references without a unique truth (two windows of >= 6 gaps agreeing within 400 bp) are outside the explored domain",
               "VERIF_SEED selects one extra catalogue reference; it never samples inside a reference"]
THOROUGH_CAP_S = 2400.0
FAMILIES = ['menu', 'exp', 'uniform', 'menu', 'exp', 'uniform', 'menu', 'exp']
QIDS = (30, 4, 17, 9)


def reference(k, seed_extra=None):
    if k == 'dense':
        return worlds.catalogue_ref(7, 'menu', 66, ref_id=12, dense_head=True)
    if seed_extra is not None:
        return worlds.catalogue_ref(100 + seed_extra, FAMILIES[seed_extra % 3], 68, ref_id=11)
    return worlds.catalogue_ref(k, FAMILIES[k], 66 + (k * 2) % 7, ref_id=(1, 24, 3, 117, 2, 8, 5, 40)[k], decimals=k % 2 == 1)


# unlabelled stretch behind the last label: ContigLength = last label + 1 + trailing; -1.0 puts the last label exactly AT ContigLength,
# -0.6 less than one bp before a fractional ContigLength
TRAILING = (0.0, 2500.0, -1.0, 0.0, 2500.0, -0.6)


def check_world(ref, plants, mode, acc, key=None):
    """plants: [(start, length, reverse, offset, trailing)] (<= 4)"""
    queries, truths = [], {}
    for j, (s, l, rev, off, tr) in enumerate(plants):
        qid = ref[0] if j == 1 else QIDS[j]        # one query carries the SAME CMapId as the reference (separate id name spaces)
        q, truth = worlds.window_query(ref, s, l, rev, off, tr, qid=qid)
        queries.append(q)
        truths[qid] = (truth, rev, l)
    w = dict(refs=[ref], queries=queries)
    def far_pairs(o):
        return [(int(row.queryId), [p.queryShift for p in row.alignedPairs if abs(p.queryShift) > 200][:5])
                for row in (o.result.rows if o.result is not None else [])]
    # the output path a user gives is not always `something.xmap`: no extension at all, another extension in a dotted directory
    out_name = 'o.xmap' if mode in ('best', 'separate') and plants[0][0] % 3 else ('planted', 'run.2/planted.txt')[plants[0][0] % 2]
    obs = driver.run_world(w, mode, in_child=far_pairs, out_name=out_name)
    found = []
    case = dict(reference=[ref[0], ref[1], list(ref[2])], plants=[list(p) for p in plants], mode=mode)
    if obs.error:
        found.append(('run-aborted', obs.error, 'run', {}))
    else:
        where = 'main' if mode in ('best', 'separate') else '_1'
        recs = xmaptext.parse(obs.files.get(where, ''))[2]
        others = [(k, r) for k, t in obs.files.items() if k != where for r in xmaptext.parse(t)[2]]
        for qid, (truth, rev, l) in truths.items():
            sig = {'strand': '-' if rev else '+'}
            mine = [r for r in recs if r['QryContigID'] == str(qid)]
            if len(mine) != 1:
                found.append(('not-exactly-one-record', 'query %d (window %s): %d records in %s.%s' % (qid, truth[0], len(mine), mode, where),
                              'placement', sig))
                continue
            r = mine[0]
            if r['RefContigID'] != str(ref[0]) or r['Orientation'] != ('-' if rev else '+'):
                found.append(('wrong-reference-or-strand', str(r['_fields'][:10]), 'placement', sig))
            elif r['pairs'] != truth:
                found.append(('pairs-differ-from-truth', 'got %s expected %s' % (r['pairs'], truth), 'placement', sig))
            elif r['HitEnum'] != '%dM' % l:
                found.append(('hitenum-has-gaps', r['HitEnum'], 'placement', sig))
            extra = [k for k, o in others if o['QryContigID'] == str(qid)]
            if extra:
                found.append(('extra-record-in-other-file', 'query %d also in %s (mode %s)' % (qid, extra, mode), 'placement', sig))
        if mode in ('best', 'separate'):
            for qid, far in (obs.extra or []):
                if far:
                    found.append(('pair-beyond-200bp-of-seed-diagonal', 'query %s shifts %s' % (qid, far), 'placement', {}))
    if acc is not None:
        acc.evals += 1
        acc.transitions += 3 + sum(obs.map_calls)
        for (s, l, rev, off, tr) in plants:
            acc.nontriv((ref[0], s, l, rev, off, mode))
            acc.state((l, rev, mode, not found))
            acc.classes['planted-windows'] += 1
        for f in found:
            acc.viol(f[0], case, f[1], f[2], f[3])
        acc.sample(lambda: dict(reference='id %d, %d labels' % (ref[0], len(ref[2])), plants=[list(p) for p in plants], mode=mode))
    return found


def check_correlation(ref, s, l, rev, acc):
    """S1 at the seeding seam: the primary (normalised) and the secondary cross-correlation of a planted window are compared, value by
    value, with an exact integer cross-correlation of the same bit vectors; the secondary maximum must sit on the true diagonal"""
    import numpy as np
    from mc.coma import OpticalMap
    from src.correlation.sequence_generator import SequenceGenerator
    (qid, qlen, qpos), truth = worlds.window_query(ref, s, l, rev, 777.7, 2500.0)
    q = OpticalMap(qid, qlen, list(qpos)).trim()
    r = OpticalMap(ref[0], int(ref[1]), list(ref[2]))
    prim, sec = SequenceGenerator(1400, 1), SequenceGenerator(100, 4)
    found = []
    case = dict(kind='correlation', reference_id=ref[0], start=s, length=l, reverse=rev)
    ia = q.getInitialAlignment(r, prim, 20000, 3, rev)
    qs = np.asarray(q.getSequence(prim, rev)).astype(np.int64)
    rs = np.asarray(r.getSequence(prim)).astype(np.int64)
    brute = np.correlate(rs, qs, 'valid').astype(float)
    norm = (np.correlate(rs, np.ones(len(qs), dtype=np.int64), 'valid') + qs.sum()) / 2.0
    want = brute / norm
    got = np.asarray(ia.correlation, dtype=float)
    if got.shape != want.shape or not np.allclose(got, want, rtol=0, atol=1e-9):
        found.append(('primary-correlation-not-exact', 'max abs difference %s' % (float(np.max(np.abs(got - want))) if got.shape == want.shape else 'shape'),
                      'seeding', {}))
    true_lag = ref[2][s]
    for pk in ia.peaks:
        sc = ia.refine(pk.position, sec, 16000, 27)
        start = pk.position - 16000
        q2 = np.asarray(q.getSequence(sec, rev)).astype(np.int64)
        r2 = np.asarray(r.getSequence(sec, False, start, pk.position + q.length + 16000)).astype(np.int64)
        if len(r2) < len(q2):
            continue
        b2 = np.correlate(r2, q2, 'valid').astype(float)
        g2 = np.asarray(sc.correlation, dtype=float)
        if g2.shape != b2.shape or not np.allclose(g2, b2, rtol=0, atol=1e-6):
            found.append(('secondary-correlation-not-exact', 'window of %d labels: max abs difference %s (true overlap count %s, reported %s)' % (
                l, float(np.max(np.abs(g2 - b2))) if g2.shape == b2.shape else 'shape', float(b2.max()), float(g2.max())), 'seeding', {}))
            break
        k = int(round((true_lag - start) / 100.0))
        if 0 <= k < len(g2) and abs(int(np.argmax(g2)) - k) > 5 and abs(pk.position - true_lag) < 8000:
            found.append(('secondary-maximum-off-the-true-diagonal', 'argmax bin %d, true bin %d' % (int(np.argmax(g2)), k), 'seeding', {}))
    if acc is not None:
        acc.evals += 1
        acc.transitions += 1 + len(ia.peaks)
        acc.state(('corr', l, rev, len(ia.peaks)))
        acc.nontriv((ref[0], s, l, rev))
        acc.classes['correlations-checked'] += 1 + len(ia.peaks)
        for f in found:
            acc.viol(f[0], case, f[1], f[2], f[3])
        acc.sample(case)
    return found


class Correlation(core.Layer):
    def __init__(self, name, refs, lengths, step, optional=False):
        self.name, self.optional = name, optional
        self.refs = refs
        self.items = [(ri, s, l, rev) for ri, ref in enumerate(refs) for l in lengths for s in range(4, len(ref[2]) - 4 - l + 1, step)
                      for rev in (False, True)]
        self.chunk = 6
        self.bounds = dict(references=[r[0] for r in refs], window_lengths=list(lengths), start_step=step, strands=['+', '-'])
        self.rule = '%d planted windows: primary and secondary correlation compared with an exact integer cross-correlation' % len(self.items)

    def nblocks(self):
        return (len(self.items) + self.chunk - 1) // self.chunk

    def run_block(self, b, acc):
        for ri, s, l, rev in self.items[b * self.chunk:(b + 1) * self.chunk]:
            acc.seq += 1
            check_correlation(self.refs[ri], s, l, rev, acc)

    def replay(self, case):
        ref = next(r for r in self.refs if r[0] == case['reference_id'])
        return check_correlation(ref, case['start'], case['length'], case['reverse'], None)


class Windows(core.Layer):
    def __init__(self, name, ref, lengths, offsets, all_modes, optional=False, product=True, max_start=None):
        self.name, self.optional, self.ref = name, optional, ref
        n = len(ref[2])
        plants = []
        for l in lengths:
            for s in range(4, (n - 4 - l + 1) if max_start is None else min(max_start + 1, n - 4 - l + 1)):
                for rev in (False, True):
                    for off in (offsets if product else (offsets[(s + l + rev) % len(offsets)],)):
                        plants.append((s, l, rev, off, TRAILING[(s + l + 2 * rev) % len(TRAILING)]))
        self.groups = [plants[i:i + 4] for i in range(0, len(plants), 4)]
        self.all_modes = all_modes
        self.bounds = dict(reference_id=ref[0], labels=n, window_lengths=list(lengths), starts='every start with >=4 labels on both sides',
                           strands=['+', '-'], offsets=list(offsets), offsets_crossed=product, trailing=list(TRAILING),
                           modes='all four on every group' if all_modes else 'best on every group, the other three on every 4th group')
        self.rule = '%d planted windows in %d runs' % (len(plants), len(self.groups))

    def nblocks(self):
        return len(self.groups)

    def run_block(self, b, acc):
        modes = ('best', 'separate', 'joined', 'all') if (self.all_modes or b % 4 == 0) else ('best',)
        for mode in modes:
            acc.seq += 1
            check_world(self.ref, self.groups[b], mode, acc)

    def replay(self, case):
        r = case['reference']
        return check_world((r[0], r[1], r[2]), [tuple(p) for p in case['plants']], case['mode'], None)


def layers(tier, seed):
    # coordinate offsets of the molecule inside its own (longer) molecule coordinate system: none, a fraction, and one that exceeds the
    # length of every reference (the labelled span is still an interior window)
    both = (0.0, 777.7, 3000000.3)
    if tier == 'quick':
        ls = (15, 16, 23, 30, 45)
        return [Windows('ref0', reference(0), ls, both, False, product=False), Windows('ref1', reference(1), ls, both, False, product=False),
                Windows('dense-head', reference('dense'), (15, 22), both, False, product=False, max_start=9),
                Windows('seed-ref', reference(0, seed % 50), (15, 45), both, False, product=False),
                Correlation('S1:correlation', [reference(0), reference('dense')], (15, 29, 36, 45), 4)]
    ls = tuple(range(15, 46))
    out = [Windows('ref%d' % k, reference(k), ls, both if k < 2 else (777.7, 3000000.3), True, optional=k >= 3) for k in range(8)]
    out.insert(2, Windows('dense-head', reference('dense'), ls, both, True, max_start=12))
    out.insert(4, Windows('seed-ref', reference(0, seed % 50), ls, (777.7,), True))
    out.insert(0, Correlation('S1:correlation', [reference(k) for k in range(4)] + [reference('dense')], tuple(range(15, 46, 3)) + (29, 44), 2))
    return out
