"""C16 - vectorisation, blur and bin-to-bp mapping are exact; seeds are the top peaks (S1 spaces, generator call sequences, S2 seeds)."""
import itertools

import numpy as np

from mc import core
from mc.coma import Peak

core.setup_repo_path()
from src.correlation.vectorise import vectorisePositions, blur  # noqa: E402
from src.correlation.optical_map import toRelativeGenomicPositions, CorrelationResult  # noqa: E402
from src.correlation.peaks_selector import PeaksSelector  # noqa: E402

RULE = ("(a) every sorted label multiset (size bound) over 0..11 x resolution {1,2,3,5} x start {-4,-1,0,1,3,6} x end "
        "{None,0,2,5,9,11,14}; (b) every 0/1 vector up to a length bound x radius 0..3; (c) resolutions 1..12 and the two defaults x "
        "bins 0..4 x starts; (a') two consecutive positionsToSequence calls on ONE SequenceGenerator: label multisets x resolution {1,2,3} x "
        "radius {0,1} x every ordered pair of 15 windows; (e) S2: multi-query worlds on 3 references x peaksCount {1,2,3,5}: the seeds "
        "refined are the best-scoring peaks over all references and strands, best first; (d) every list of <= 5 peak heights over {1,2,3} split over <= 3 correlations x count 1..5; "
        "non-trivial = (a) window cuts a label off / negative start, (b) radius > 0 and vector has a 1, (c) all, (d) ties or count < peaks")
ASSUMPTIONS = ["integer label coordinates, plus one-decimal coordinates against integer windows", "createPeaks is driven with synthetic find_peaks property arrays"]


@core.guarded(lambda pos, res, start, end, *a: dict(kind='vectorise', positions=pos, resolution=res, start=start, end=end))
def check_vec(pos, res, start, end, acc):
    found = []
    case = dict(kind='vectorise', positions=pos, resolution=res, start=start, end=end)
    try:
        v = list(vectorisePositions(list(pos), res, start, end))
    except Exception as e:
        v = None
        found.append(('vectorise-exception', repr(e), 'vectorise', {}))
    if v is not None:
        e_eff = end or pos[-1]
        for i, b in enumerate(v):
            has = any(start + i * res <= p < start + (i + 1) * res for p in pos)
            if bool(b) != has:
                found.append(('bit-wrong', 'bit %d of %s' % (i, v), 'vectorise', {}))
                break
        for p in pos:
            if start <= p <= e_eff and (p - start) // res >= len(v):
                found.append(('label-between-start-and-end-has-no-bit', 'label %s vector %s' % (p, v), 'vectorise', {}))
                break
    if acc is not None:
        acc.evals += 1
        acc.transitions += 1
        acc.state(('v', res, tuple(v or ())))
        if start < 0 or (end is not None and end < pos[-1]) or start > pos[0]:
            acc.nontriv(('v', tuple(pos), res, start, end))
        for f in found:
            acc.viol(f[0], case, f[1], f[2], f[3])
        acc.sample(case)
    return found


@core.guarded(lambda v, r, *a: dict(kind='blur', vector=list(v), radius=r))
def check_blur(v, r, acc):
    found = []
    case = dict(kind='blur', vector=list(v), radius=r)
    b = blur(list(v), r)
    n = len(v)
    exp = [1 if any(v[j] for j in range(max(0, i - r), min(n, i + r + 1))) else 0 for i in range(n)]
    if list(b) != exp:
        found.append(('blur-not-dilation', 'got %s expected %s' % (list(b), exp), 'blur', {}))
    if acc is not None:
        acc.evals += 1
        acc.transitions += 1
        acc.state(('b', tuple(int(x) for x in b)))
        if r > 0 and any(v):
            acc.nontriv(('b', tuple(v), r))
        for f in found:
            acc.viol(f[0], case, f[1], f[2], f[3])
        acc.sample(case)
    return found


@core.guarded(lambda res, i, start, *a: dict(kind='centre', resolution=res, bin=i, start=start))
def check_centre(res, i, start, acc):
    found = []
    case = dict(kind='centre', resolution=res, bin=i, start=start)
    c = toRelativeGenomicPositions(np.array([i]), res, start)[0]
    lo, hi = start + i * res, start + (i + 1) * res - 1
    if not (abs(c - lo) <= res / 2 and abs(hi - c) <= res / 2):
        found.append(('bin-centre', 'bin [%s,%s] -> %s' % (lo, hi, c), 'convert', {}))
    if acc is not None:
        acc.evals += 1
        acc.transitions += 1
        acc.state(('c', res, int(c) - start))
        acc.nontriv(('c', res, i, start))
        for f in found:
            acc.viol(f[0], case, f[1], f[2], f[3])
        acc.sample(case)
    return found


@core.guarded(lambda heights, split, count, *a: dict(kind='peaks', heights=list(heights), split=list(split), count=count))
def check_peaks(heights, split, count, acc):
    """heights: list of ints; split: tuple of group sizes (<=3 correlations)"""
    found = []
    case = dict(kind='peaks', heights=list(heights), split=list(split), count=count)
    groups = []
    i = 0
    for n in split:
        groups.append(list(heights[i:i + n]))
        i += n
    corrs = []
    for gi, g in enumerate(groups):
        pp = np.arange(len(g)) * 3 + 1
        props = dict(peak_heights=np.array(g, dtype=float), left_ips=pp - 0.5, right_ips=pp + 0.5)
        peaks = CorrelationResult.createPeaks(pp, props, 10, 0, 0.25, count)
        want = sorted(g, reverse=True)[:count]
        if sorted((p.height for p in peaks), reverse=True) != [float(x) for x in want]:
            found.append(('createPeaks-not-top-N', 'heights %s count %d kept %s' % (g, count, [p.height for p in peaks]), 'createPeaks', {}))
        corrs.append(type('C', (), dict(peaks=peaks))())
    selector = PeaksSelector(count)
    sel = selector.selectPeaks(iter(corrs))
    got = [sp.peak.score for sp in sel]
    again = [sp.peak.score for sp in selector.selectPeaks(iter(corrs[::-1]))]        # second call on the same selector, other order
    if sorted(again, reverse=True) != sorted(got, reverse=True) or again != sorted(again, reverse=True):
        found.append(('selector-second-call-differs', 'first %s second %s' % (got, again), 'selectPeaks', {}))
    allscores = sorted((p.score for c in corrs for p in c.peaks), reverse=True)
    if got != allscores[:count]:
        found.append(('selector-not-top-N-descending', 'got %s of %s' % (got, allscores), 'selectPeaks', {}))
    if acc is not None:
        acc.evals += 1
        acc.transitions += len(groups) + 1
        acc.state(('p', tuple(got)))
        if len(set(heights)) < len(heights) or count < len(heights):
            acc.nontriv(('p', tuple(heights), tuple(split), count))
        for f in found:
            acc.viol(f[0], case, f[1], f[2], f[3])
        acc.sample(case)
    return found


# ------------------------------------------------------------------------------------------------
# operation sequences on ONE SequenceGenerator (the aligner keeps one generator per engine and calls it for whole maps and for
# refinement windows of the same map)

SEQ_WINDOWS = [(s, e) for s in (0, -2, 3) for e in (None, 2, 5, 9, 14)]


@core.guarded(lambda pos, res, rad, calls, *a: dict(kind='generator', positions=list(pos), resolution=res, radius=rad, calls=[list(c) for c in calls]))
def check_generator(pos, res, rad, calls, acc):
    from src.correlation.sequence_generator import SequenceGenerator
    found = []
    case = dict(kind='generator', positions=list(pos), resolution=res, radius=rad, calls=[list(c) for c in calls])
    gen = SequenceGenerator(res, rad)
    outs = []
    for k, (start, end) in enumerate(calls):
        direct = list(blur(list(vectorisePositions(list(pos), res, start, end)), rad))
        got = list(gen.positionsToSequence(list(pos), start, end))
        outs.append(tuple(int(x) for x in got))
        if [int(x) for x in got] != [int(x) for x in direct]:
            found.append(('generator-call-differs-from-vectorise-then-blur', 'call %d %s: got %s, vectorise+blur gives %s' % (
                k + 1, (start, end), got, direct), 'positionsToSequence', {'call': min(k + 1, 2)}))
    if acc is not None:
        acc.evals += 1
        acc.transitions += len(calls)
        acc.state(('g', res, rad) + tuple(outs))
        if len(calls) > 1 and calls[0] != calls[1]:
            acc.nontriv(('g', tuple(pos), res, rad, tuple(calls)))
        for f in found:
            acc.viol(f[0], case, f[1], f[2], f[3])
        acc.sample(case)
    return found


class Generator(core.Layer):
    def __init__(self, name, nlab, optional=False):
        self.name, self.optional = name, optional
        self.multisets = [list(c) for n in range(1, nlab + 1) for c in itertools.combinations_with_replacement(range(0, 12, 1), n)]
        self.chunk = max(1, len(self.multisets) // 40)
        self.bounds = dict(labels_per_list=[1, nlab], coordinate_range=[0, 11], resolutions=[1, 2, 3], radius=[0, 1], windows=len(SEQ_WINDOWS),
                           calls_per_generator=2)
        self.rule = '%d label multisets x 3 resolutions x 2 radii x every ordered pair of %d windows, two calls on one generator' % (
            len(self.multisets), len(SEQ_WINDOWS))

    def nblocks(self):
        return (len(self.multisets) + self.chunk - 1) // self.chunk

    def run_block(self, b, acc):
        for pos in self.multisets[b * self.chunk:(b + 1) * self.chunk]:
            for res in (1, 2, 3):
                for rad in (0, 1):
                    for c1 in SEQ_WINDOWS:
                        for c2 in SEQ_WINDOWS:
                            acc.seq += 1
                            check_generator(pos, res, rad, (c1, c2), acc)

    def replay(self, case):
        return check_generator(case['positions'], case['resolution'], case['radius'], [tuple(c) for c in case['calls']], None)


# ------------------------------------------------------------------------------------------------
# S2: the seeds that are actually refined are the peaksCount best-scoring peaks over ALL references and strands, best first

def judge_seeds(ctx, mode, extra, obs, acc):
    from mc.props import c05
    found = []
    pc = int(dict(zip(extra[::2], extra[1::2])).get('-p', 3))
    passes = c05.split_passes(obs.events)
    first = passes[0] if passes else []
    cands, seeds = {}, {}
    for ev in first:
        if ev[0] == 'cands' and ev[1]:
            cands.setdefault(ev[1][0]['query'], []).extend(ev[1])
        elif ev[0] == 'seeds':
            seeds.setdefault(ev[1], []).extend((p[1], ev[3], ev[4]) for p in ev[5])
    if acc is not None:
        strands = {}
        for ev in first:
            if ev[0] == 'seeds':
                strands.setdefault((ev[1], ev[3]), {})[ev[4]] = len(ev[5])
        for k_, v in strands.items():
            if len(v) == 2 and min(v.values()) == 0 and max(v.values()) > 0:
                acc.classes['correlations-with-peaks-on-one-strand-only'] += 1
    if '-md' not in extra:
        for ev in first:
            if ev[0] == 'seeds' and len(ev) > 6 and ev[6] is not None and len(ev[6]) < 40:
                kept = sorted((p[2] for p in ev[5]), reverse=True)
                want = ev[6][:min(pc, len(ev[6]))]
                if [round(x, 9) for x in kept] != [round(x, 9) for x in want]:
                    found.append(('kept-peaks-are-not-the-peaksCount-highest', 'query %s reference %s strand %s -p %d: %d peaks kept, %d peaks above the '
                                  'threshold; kept heights %s, highest %s' % (ev[1], ev[3], '-' if ev[4] else '+', pc, len(kept), len(ev[6]), kept[-3:], want[-3:]),
                                  'selection', {}))
                    break
                if acc is not None and len(ev[6]) > 10 and pc > 10:
                    acc.classes['correlations-with-more-than-10-peaks-and-peaksCount-above-10'] += 1
    planted = ctx.world.get('planted')
    if planted:
        # a noise-free copy of the labels that start `before` bp into reference 1: the refined correlation peak of the candidate on that
        # reference and strand, converted to base pairs, is the copy's offset to within one fine bin (100 bp)
        qid, rid, rev, before = planted
        mine = [ev for ev in first if ev[0] == 'refined' and ev[1] == qid and ev[3] == rid and ev[4] == rev and ev[6]]
        for ev in mine[:1]:
            best = max(ev[6], key=lambda p: p[1])
            if abs(best[0] - before) > 100:
                found.append(('refined-peak-is-not-at-the-planted-offset', 'query %s on reference %s strand %s: best refined peak at %s bp, the copy '
                              'starts %s bp into the reference (refined peaks %s)' % (qid, rid, '-' if rev else '+', best[0], before, ev[6][:4]), 'convert', {}))
        if acc is not None and mine:
            acc.classes['planted-copies-within-the-secondary-margin-of-the-reference-start'] += 1
    for qid in ctx.qmaps:
        cl = sorted(cands.get(qid, []), key=lambda c: c['index'] if c['index'] is not None else 0)
        sd = sorted(seeds.get(qid, []), reverse=True)
        if not cl or not sd:
            continue
        top = sd[:pc]
        if len({x[0] for x in sd[:pc + 1]}) != len(sd[:pc + 1]):
            continue        # exact score ties: any choice / order is accepted
        want = [(x[1], x[2]) for x in top]
        got = [(c['reference'], c['reverse']) for c in cl]
        if sorted(want) != sorted(got):
            found.append(('refined-seeds-are-not-the-top-scoring-peaks', 'query %s -p %d: refined %s, best-scoring peaks %s (all: %s)' % (
                qid, pc, got, want, sd[:8]), 'selection', {}))
        elif want != got and all(c['index'] is not None for c in cl):
            found.append(('refined-seeds-not-in-descending-score-order', 'query %s -p %d: refined in order %s, by score %s' % (qid, pc, got, want),
                          'selection', {}))
        if acc is not None and len(sd) > pc and len({(x[1], x[2]) for x in sd[:pc + 1]}) > 1:
            acc.nontriv((ctx.key, pc, qid))
            acc.classes['queries-with-more-peaks-than-peaksCount-on-several-references-or-strands'] += 1
    return found


GEN_WIRING = [(1400, 1, 100, 4), (700, 0, 50, 3), (1400, 3, 100, 1), (2000, 2, 200, 2), (1400, 1, 100, 0)]      # (-r1, -b1, -r2, -b2)


@core.guarded(lambda r1, b1, r2, b2, pos, *a: dict(kind='generators', options=[r1, b1, r2, b2], positions=list(pos)))
def check_generators(r1, b1, r2, b2, pos, acc):
    """the two SequenceGenerators the PROGRAM builds from -r1/-b1 (seeding) and -r2/-b2 (refinement) produce, for a label list, exactly
    vectorise-then-blur with THEIR OWN resolution and radius"""
    import os
    from mc import driver
    from src.args import Args
    from src.program import Program
    d = core.scratch_dir()
    w = dict(refs=[(1, 50000.0, [1000.0, 9000.0, 20000.0])], queries=[(2, 20000.0, [0.0, 8000.0, 19000.0])])
    rp, qp = driver.write_world(d, w)
    a = Args.parse(driver.cli_args(rp, qp, os.path.join(d, 'o16.xmap'), 'best', ['-r1', str(r1), '-b1', str(b1), '-r2', str(r2), '-b2', str(b2), '-md', str(max(20000, r1))]))
    try:
        prog = Program(a)
    finally:
        for fo in (a.referenceFile, a.queryFile, a.outputFile):
            fo.close()
    wc = prog.workflowCoordinator
    found = []
    case = dict(kind='generators', options=[r1, b1, r2, b2], positions=list(pos))
    for name, gen, res, rad in (('primary', wc.primaryGenerator, r1, b1), ('secondary', wc.secondaryGenerator, r2, b2)):
        got = [int(x) for x in gen.positionsToSequence(list(pos), 0, None)]
        want = [int(x) for x in blur(list(vectorisePositions(list(pos), res, 0, None)), rad)]
        if got != want:
            found.append(('program-built-generator-differs', '%s generator for -r1 %s -b1 %s -r2 %s -b2 %s: %d bits differ (generator holds resolution=%s, '
                          'blurRadius=%s)' % (name, r1, b1, r2, b2, sum(1 for x, y in zip(got, want) if x != y) + abs(len(got) - len(want)),
                                              getattr(gen, 'resolution', '?'), getattr(gen, 'blurRadius', '?')), 'wiring', {'generator': name}))
    if acc is not None:
        acc.evals += 1
        acc.transitions += 2
        acc.state(('gw', r1, b1, r2, b2, len(pos)))
        if b1 != b2:
            acc.nontriv(('gw', r1, b1, r2, b2, tuple(pos)))
        for f in found:
            acc.viol(f[0], case, f[1], f[2], f[3])
        acc.sample(case)
    return found


class GeneratorWiring(core.Layer):
    name = 'wiring:-r1,-b1,-r2,-b2'
    optional = False

    def __init__(self):
        self.lists = [[0, 5000, 5400, 12000], [300, 301, 9000], [0, 1399, 1400, 2800, 30000], [100]]
        self.bounds = dict(option_tuples=[list(x) for x in GEN_WIRING], label_lists=len(self.lists))
        self.rule = '%d (-r1, -b1, -r2, -b2) tuples x %d label lists through the generators built by Program' % (len(GEN_WIRING), len(self.lists))

    def nblocks(self):
        return len(GEN_WIRING)

    def run_block(self, b, acc):
        for pos in self.lists:
            acc.seq += 1
            check_generators(*GEN_WIRING[b], pos, acc)

    def replay(self, case):
        return check_generators(*case['options'], case['positions'], None)


def array_layer(tier, seed):
    """a reference with 24 tandem copies of a 25.2 kb unit: one correlation has more than ten peaks that are at least minPeakDistance apart;
    run with peaksCount 12 and 14 (above the fixed cap of 10 that the refinement step uses for ITS peaks)"""
    from mc import e2e, sink, worlds as W
    a = W.catalogue_ref(3, 'lattice4200', 21, ref_id=5)
    pos = list(a[2])
    x = pos[-1] + 12600.0
    for u in range(24):
        for o in (0.0, 4200.0, 12600.0):
            pos.append(x + u * 25200.0 + o)
    tail = [pos[-1] + 16800.0 + (p - a[2][0]) for p in a[2]]
    arr = (5, tail[-1] + 14000.0, pos + tail)
    plain = e2e.std_refs()[0]
    qs = []
    for j, (st, n) in enumerate(((21 + 3 * 4, 12), (21 + 3 * 9 + 1, 13))):
        qs.append(W.as_map(e2e.QIDS[j], W.window_query(arr, st, n, bool(j))[0][2]))
    ws = [dict(refs=[arr, plain], queries=qs, desc=['window of a 24-copy tandem array'] * 2)]
    return e2e.WorldLayer('S2:array', ws, judge_seeds, extras=(('-p', '12'), ('-p', '14')), modes=('all',),
                          extensions=[sink.Candidates, sink.Seeds, sink.Refined], bounds=dict(worlds=1, peaksCount=[12, 14], tandem_copies=24),
                          rule='windows of a 24-copy tandem array x peaksCount {12, 14}', cli_every=0)


def seed_layer(tier, seed):
    from mc import e2e, sink
    n = 10 if tier == 'quick' else 80
    refs, pool, sets = e2e.query_sets(n, 'c16')
    ws = [e2e.set_world(refs, pool, s, nrefs=3, short_ref=i % 3 == 1, ref_ids=(17, 4, 9) if i % 2 else None) for i, s in enumerate(sets)]
    # tight references: a contig with just one label in front of and behind the molecule cut from it, a few seeding bins away, so
    # that each strand's correlation has five to nine values and often no peak at all on the wrong strand; with two ordinary
    # references for competition
    from mc import worlds as W
    t = 0
    for k in (11, 12, 13):
        for before, after in ((5600.0, 4200.0), (4200.0, 5600.0), (7000.0, 2800.0), (2800.0, 7000.0), (5600.0, 5600.0)):
            for rev in (True, False):
                t += 1
                if tier == 'quick' and (k != 12 or not (rev or before == after)):
                    continue
                base = W.catalogue_ref(k, 'menu', 14, ref_id=1, lead=0.0)[2]
                labels = [0.0] + [round(before + p - base[0], 1) for p in base]
                labels.append(round(labels[-1] + after, 1))
                src = (1, labels[-1] + 1.0, labels)
                q = W.window_query(src, 1, 14, rev)[0][2]
                other = W.window_query(refs[t % 3], 10 + t, 15, not rev)[0][2]
                ws.append(dict(refs=[refs[1], src, refs[0]], queries=[W.as_map(e2e.QIDS[0], q), W.as_map(e2e.QIDS[1], other)],
                               desc=['tight reference (%s before, %s after) on strand %s' % (before, after, '-' if rev else '+'), 'plain'],
                               planted=[e2e.QIDS[0], 1, rev, before]))
    extras = tuple(('-p', str(p)) for p in (1, 2, 3, 5))
    return e2e.WorldLayer('S2:seeds', ws, judge_seeds, extras=extras, modes=('all',), extensions=[sink.Candidates, sink.Seeds, sink.Refined],
                          bounds=dict(worlds=len(ws), peaksCount=[1, 2, 3, 5], references=3, queries_per_world=[3, 5]),
                          rule='%d multi-query worlds on 3 references x 4 peaksCount' % len(ws), cli_every=0)


class Space(core.Layer):
    def __init__(self, name, nlab, blen, optional=False):
        self.name, self.optional = name, optional
        self.nlab, self.blen = nlab, blen
        self.multisets = [list(c) for n in range(1, nlab + 1) for c in itertools.combinations_with_replacement(range(12), n)]
        self.chunk = max(1, len(self.multisets) // 60)
        self.nvec = (len(self.multisets) + self.chunk - 1) // self.chunk
        self.bounds = dict(labels_per_list=[1, nlab], coordinate_range=[0, 11], resolutions=[1, 2, 3, 5], starts=[-4, -1, 0, 1, 3, 6],
                           ends=[None, 0, 2, 5, 9, 11, 14], blur_vector_length=[0, blen], radius=[0, 3], centre_resolutions='1..12,100,1400',
                           peak_heights='lists of <=5 over {1,2,3}', counts=[1, 5])
        self.rule = '%d label multisets x 168 windows; all bit vectors of length <= %d x 4 radii; 14 resolutions x 5 bins x 3 starts; peak lists' % (
            len(self.multisets), blen)

    def nblocks(self):
        return self.nvec + 3

    def run_block(self, b, acc):
        if b < self.nvec:
            for pos in self.multisets[b * self.chunk:(b + 1) * self.chunk]:
                for res in (1, 2, 3, 5):
                    for start in (-4, -1, 0, 1, 3, 6):
                        for end in (None, 0, 2, 5, 9, 11, 14):
                            acc.seq += 1
                            check_vec(pos, res, start, end, acc)
        elif b == self.nvec:
            # one-decimal label coordinates (what a CMAP file holds) against integer windows
            grid = [0.3, 0.9, 1.0, 2.5, 2.9, 3.0, 4.7, 5.1, 7.9]
            for n in (1, 2, 3):
                for pos in itertools.combinations(grid, n):
                    for res in (1, 2, 3):
                        for start in (-1, 0, 1, 3, 5):
                            for end in (None, 2, 5, 8):
                                acc.seq += 1
                                check_vec(list(pos), res, start, end, acc)
            for r in range(4):
                for n in range(0, self.blen + 1):
                    for v in itertools.product((0, 1), repeat=n):
                        acc.seq += 1
                        check_blur(v, r, acc)
        elif b == self.nvec + 1:
            for res in list(range(1, 13)) + [100, 1400]:
                for i in range(5):
                    for start in (-7, 0, 13):
                        acc.seq += 1
                        check_centre(res, i, start, acc)
        else:
            for n in range(0, 6):
                for hs in itertools.product((1, 2, 3), repeat=n):
                    for split in self._splits(n):
                        for count in range(1, 6):
                            acc.seq += 1
                            check_peaks(hs, split, count, acc)

    @staticmethod
    def _splits(n):
        out = [(n,)]
        for a in range(0, n + 1):
            out.append((a, n - a))
        for a in range(0, n + 1):
            for b in range(0, n - a + 1):
                out.append((a, b, n - a - b))
        return out

    def replay(self, case):
        k = case['kind']
        if k == 'vectorise':
            return check_vec(case['positions'], case['resolution'], case['start'], case['end'], None)
        if k == 'blur':
            return check_blur(case['vector'], case['radius'], None)
        if k == 'centre':
            return check_centre(case['resolution'], case['bin'], case['start'], None)
        return check_peaks(case['heights'], tuple(case['split']), case['count'], None)


def layers(tier, seed):
    if tier == 'quick':
        return [Space('n<=4,len<=8', 4, 8), Generator('seq2:n<=2', 2), seed_layer(tier, seed), array_layer(tier, seed), GeneratorWiring()]
    return [Space('n<=4,len<=8', 4, 8), Generator('seq2:n<=3', 3), seed_layer(tier, seed), array_layer(tier, seed), GeneratorWiring(), Space('n<=6,len<=12', 6, 12, optional=True)]
