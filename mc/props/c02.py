"""C02 - record fields agree with the listed pairs and with the input maps (S2; judged from file text vs CMAP text)."""
from mc import e2e

RULE = ("every record of every file (main,_1,_2) of every standard world (noise-free windows of 3 catalogue references with ids "
        "24/3/117 and decimal contig lengths, both strands, query coordinate offsets 0/20.0/777.7, all edit scripts of bounded "
        "depth incl. cut/chimera/indel which provoke second-pass records, unsorted query ids) x 4 modes (x parameter settings in "
        "thorough); header fields recomputed from the CMAP text by mc/cmaptext.py; non-trivial = record is '-', second-pass, or of "
        "a query whose first label is not at 0; distinct by (world, mode, file, record index)")
ASSUMPTIONS = ["records whose matching is invalid are deferred to C01 (counted, not judged)",
               "formulas calibrated at design time: QryStart/End measured from the first label for '+' and from the last for '-'"]


def layers(tier, seed):
    ws = e2e.std_worlds(tier, seed)
    extras = ((),) if tier == 'quick' else ((), ('-d', '600'), ('-p', '1', '-ms', '2000'))
    return [e2e.WorldLayer('B:worlds', ws, e2e.judge_c02, extras=extras, cli_every=97,
                           bounds=dict(worlds=len(ws), modes=list(e2e.MODES), parameter_settings=[list(e) for e in extras],
                                       edit_depth=[0, 1] if tier == 'quick' else [0, 1, 2]))]
