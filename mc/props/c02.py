"""C02 - record fields agree with the listed pairs and with the input maps.

Layer B (S2): every record of every file of the standard worlds, judged from file text vs CMAP text.  Layer A (S1): rows that the
REAL aligner builds on the indel-ladder lattice worlds - for whole molecules and for the four kinds of second-pass fragment maps
(head / tail fragment x strand, built the way getUnalignedFragments builds them: whole-molecule coordinates and length, label-number
shift) - written by the real XMAP writer and judged from the written text with the same field formulas.
"""
import os

from mc import core, e2e, cmaptext, xmaptext

RULE = ("A: rows built by the real aligner on the indel-ladder lattice worlds x 3 strand variants x {whole molecule, offset molecule, "
        "tail fragment, head fragment} written by the real writer; B: every record of every file (main,_1,_2) of every standard world (noise-free windows of 3 catalogue references with ids "
        "24/3/117 and decimal contig lengths, both strands, query coordinate offsets 0/20.0/777.7, all edit scripts of bounded "
        "depth incl. cut/chimera/indel which provoke second-pass records, unsorted query ids) x 4 modes (x parameter settings in "
        "thorough); header fields recomputed from the CMAP text by mc/cmaptext.py; non-trivial = record is '-', second-pass, or of "
        "a query whose first label is not at 0; distinct by (world, mode, file, record index)")
ASSUMPTIONS = ["records whose matching is invalid are deferred to C01 (counted, not judged)",
               "formulas calibrated at design time: QryStart/End measured from the first label for '+' and from the last for '-'"]


D_PREFIX, T_SUFFIX = 1000, 700      # lattice units in front of / behind the fragment inside the whole molecule
VARIANTS = ('whole', 'whole+offset', 'tail-fragment', 'head-fragment')


def build(q, peaks, rev, variant):
    """-> (whole-molecule label list as in the CMAP file, OpticalMap handed to the aligner, peak list in that map's frame)"""
    from mc.coma import OpticalMap
    if variant in ('whole', 'whole+offset'):
        off = 777.7 if variant == 'whole+offset' else 0.0
        raw = [round(p + off, 1) for p in q]
        return raw, OpticalMap(2, raw[-1] + 250.0, list(raw)).trim(), list(peaks)
    if variant == 'tail-fragment':
        # whole molecule = 3 labels, then the fragment D_PREFIX further on; the fragment keeps whole-molecule coordinates, shift 3
        raw = [0, 300, 600] + [p + D_PREFIX for p in q]
        frag = OpticalMap(2, raw[-1] + 1, [p + D_PREFIX for p in q], shift=3)
        return raw, frag, [p - (0 if rev else D_PREFIX) for p in peaks]
    raw = list(q) + [q[-1] + T_SUFFIX - 400, q[-1] + T_SUFFIX]
    frag = OpticalMap(2, raw[-1] + 1, list(q), shift=0)
    return raw, frag, [p - (T_SUFFIX if rev else 0) for p in peaks]


_FILES = {}


def _args():
    from src.args import Args
    from mc import driver
    d = core.scratch_dir()
    key = os.getpid()
    if _FILES.get('pid') != key:
        rp, qp = os.path.join(d, 'r02.cmap'), os.path.join(d, 'q02.cmap')
        for p in (rp, qp):
            with open(p, 'w') as f:
                f.write(cmaptext.text([(1, 10.0, [1.0])]))
        _FILES.update(pid=key, rp=rp, qp=qp, op=os.path.join(d, 'o02.xmap'))
    return Args.parse(driver.cli_args(_FILES['rp'], _FILES['qp'], _FILES['op'], 'best')), _FILES


@core.guarded(lambda ref, q, peaks, rev, variant, *a: dict(reference=ref, query=q, peaks=peaks, reverse=rev, variant=variant))
def check_row(ref, q, peaks, rev, variant, acc, aligner=None):
    from mc.coma import make_aligner, OpticalMap, Peak, AlignmentResults
    from src.parsers.xmap_reader import XmapReader
    al = aligner or make_aligner(4, 100, 1, -25, 100, 120)
    raw, qmap, pk = build(q, peaks, rev, variant)
    rlen = ref[-1] + 10
    row = al.align(OpticalMap(1, rlen, list(ref)), qmap, [Peak(p, 10.) for p in pk], rev)
    found = []
    case = dict(reference=ref, query=q, peaks=peaks, reverse=rev, variant=variant)
    sig = {'strand': '-' if rev else '+', 'fragment': variant.endswith('fragment')}
    npairs = len(row.alignedPairs)
    if npairs:
        if variant.endswith('fragment'):
            row = row.setAlignedRest(True)
        args, fl = _args()
        try:
            XmapReader().writeAlignments(args.outputFile, AlignmentResults(fl['rp'], fl['qp'], [row]), args)
            args.outputFile.close()
            recs = xmaptext.parse(open(fl['op']).read())[2]
        finally:
            for fobj in (args.referenceFile, args.queryFile, args.outputFile):
                fobj.close()
        if len(recs) != 1:
            found.append(('field:record-count', 'one row written, %d records in the file' % len(recs), 'row', sig))
        else:
            r = recs[0]
            whole = sorted(raw)
            if any(not (1 <= a <= len(ref) and 1 <= b <= len(whole)) for a, b in r['pairs']):
                found.append(('field:pair-names-no-label', 'pairs %s, molecule has %d labels' % (r['pairs'], len(whole)), 'row', sig))
            else:
                for sym, detail in e2e.field_problems(r, (float(rlen), [float(x) for x in ref]), (None, [float(x) for x in whole])):
                    found.append(('field:' + sym, 'variant=%s strand=%s rec=%s | %s' % (variant, sig['strand'], r['_fields'][:13], detail), 'row', sig))
                if r['QryContigID'] != '2' or r['RefContigID'] != '1' or r['Orientation'] != sig['strand']:
                    found.append(('field:ids-or-orientation', str(r['_fields'][:8]), 'row', sig))
    if acc is not None:
        acc.evals += 1
        acc.transitions += 3
        acc.state((variant, rev, npairs, sum(1 for s_ in row.segments if not s_.empty)))
        if npairs and (rev or variant != 'whole'):
            acc.nontriv((tuple(q), tuple(peaks), rev, variant))
        if npairs:
            acc.classes['rows-written:' + variant] += 1
        for f in found:
            acc.viol(f[0], case, f[1], f[2], f[3])
        acc.sample(case)
    return found


class AlignerRows(core.Layer):
    name = 'A:aligner-rows'

    def __init__(self, full, optional=False, every=1):
        from mc import lattice
        self.optional = optional
        self.cases = list(lattice.ladder_cases(full))[::every]
        self.chunk = 30
        self.bounds = dict(worlds='indel-ladder worlds (mc.props.c15.ladder_worlds(full=%s))' % full, peaks_per_list=[1, 3],
                           strands=['+ q', '- mirror(q)', '- q'], variants=list(VARIANTS))
        self.rule = '%d (world, peak list) cases (quick: every third of the enumeration) x 3 strand variants x 4 molecule variants (whole, offset, tail fragment, head fragment)' % len(self.cases)

    def nblocks(self):
        return (len(self.cases) + self.chunk - 1) // self.chunk

    def run_block(self, b, acc):
        from mc.coma import make_aligner
        al = make_aligner(4, 100, 1, -25, 100, 120)
        for name, ref, q, peaks in self.cases[b * self.chunk:(b + 1) * self.chunk]:
            for rev, qq in ((False, q), (True, sorted(q[-1] - p for p in q)), (True, q)):
                for variant in VARIANTS:
                    acc.seq += 1
                    check_row(ref, qq, peaks, rev, variant, acc, al)

    def replay(self, case):
        return check_row(case['reference'], case['query'], case['peaks'], case['reverse'], case['variant'], None)


def layers(tier, seed):
    ws = e2e.std_worlds(tier, seed)
    extras = ((),) if tier == 'quick' else ((), ('-d', '600'), ('-p', '1', '-ms', '2000'))
    return [AlignerRows(tier != 'quick', every=3 if tier == 'quick' else 1), e2e.WorldLayer('B:worlds', ws, e2e.judge_c02, extras=extras, cli_every=97,
                           bounds=dict(worlds=len(ws), modes=list(e2e.MODES), parameter_settings=[list(e) for e in extras],
                                       edit_depth=[0, 1] if tier == 'quick' else [0, 1, 2]))]
