"""C07 - well-formed input never aborts the run; unalignable queries just yield no record.

S2 over a degenerate-world catalogue crossed with parameter deviations (default, every single deviation, every pair) and modes.
Each world is run three ways: degenerate queries alone, degenerate + good query, good query alone (baseline for non-interference).
"""
import itertools
import signal

from mc import core, worlds, driver, xmaptext, cmaptext, e2e

RULE = ("degenerate-world catalogue (1- and 2-label queries, duplicate positions, query longer than every / one reference, 1- and "
        "2-label references, reference shorter than the secondary margin, unlabelled molecules, far-apart labels, only-unalignable "
        "files, molecules aligned only in their middle with short / long unplaceable heads and tails, "
        "files) x {degenerate alone, degenerate + good neighbour, neighbour alone} x parameter settings with <= 1 (quick) / <= 2 "
        "(thorough) deviations from the defaults; two real CLI runs per world in rotating shell shapes (-o without extension in a dotted directory, -o x.txt, CMAP through a pipe, XMAP on standard output), their files judged like the others; "
        "menus respect the option help (-md >= -r1, -su <= 0, -ms > 0); x modes; non-trivial = run contains a degenerate molecule and non-default parameters or produces "
        "a zero-record file; distinct by (world, variant, setting, mode)")
ASSUMPTIONS = ["per-run wall cap 60 s stands for 'terminates'", "parameter menus are the ones listed in DESIGN.md 4/C07"]
THOROUGH_CAP_S = 2400.0

MENU = dict(r1=[700, 5000], b1=[0, 3], p=[1, 10], md=[1400, 60000], r2=[50, 1000], b2=[0], ma=[0, 50000], pt=[0, 1000], d=[0, 9000],
            ms=[1], bs=[0], diff=[0], sj=[0], ss=[1], c=[1, 16])


def settings(maxdev):
    out = [()]
    keys = list(MENU)
    for k in keys:
        for v in MENU[k]:
            out.append(('-' + k, str(v)))
    if maxdev >= 2:
        for a, b in itertools.combinations(keys, 2):
            for va in MENU[a]:
                for vb in MENU[b]:
                    out.append(('-' + a, str(va), '-' + b, str(vb)))
    ok = []
    for s in out:
        d = dict(zip(s[::2], s[1::2]))
        r1 = int(d.get('-r1', 1400))
        md = int(d.get('-md', 20000))
        if md >= r1:
            ok.append(s)
    return ok


def catalogue():
    R = worlds.catalogue_ref(3, 'menu', 40, ref_id=1)
    R2 = worlds.catalogue_ref(4, 'exp', 30, ref_id=6)
    short = (9, 12000.0, [1000.0, 4000.0, 6500.0, 9000.0, 11500.0])
    good, _ = worlds.window_query(R, 8, 15, False, 777.7, 2500.0, qid=17)
    goodr, _ = worlds.window_query(R, 20, 14, True, 0.0, 0.0, qid=17)
    span = R[2][-1] + 50000.0
    long_q = (5, span + 1, [0.0, 30000.0, 61000.0, span / 2, span - 40000.0, span])
    mid_q = (5, 200000.0, [0.0, 21000.0, 48000.0, 90000.0, 150000.0, 199000.0])
    W = []
    W.append(('one-label-query', [R], [(5, 5000.0, [100.0])], good))
    W.append(('two-label-query', [R], [(5, 50000.0, [100.0, 20000.0])], good))
    W.append(('duplicate-positions', [R], [(5, 50000.0, [100.0, 100.0, 20000.0, 20000.0, 30000.0])], good))
    W.append(('query-longer-than-every-reference', [R], [long_q], good))
    W.append(('query-longer-than-one-reference', [short, R], [mid_q], good))
    W.append(('one-label-reference', [(2, 100000.0, [5000.0])], [(5, 62000.0, [1000.0, 11000.0, 26000.0, 41000.0, 43000.0, 61000.0])], None))
    W.append(('one-label-reference-next-to-normal', [(2, 900000.0, [5000.0]), R], [], good))
    W.append(('two-label-reference', [(2, 100000.0, [5000.0, 80000.0])], [(5, 62000.0, [1000.0, 11000.0, 26000.0, 41000.0, 43000.0, 61000.0])], None))
    W.append(('reference-shorter-than-margin', [short], [(5, 9000.0, [500.0, 3500.0, 6000.0, 8500.0])], None))
    W.append(('reference-labels-end-early', [(2, 900000.0, [5000.0, 9000.0, 30000.0, 41000.0]), R], [], good))
    W.append(('unlabelled-molecules', [R, (4, 50000.0, [])], [(5, 30000.0, []), (8, 10.0, [])], good))
    W.append(('far-apart-labels', [R], [(5, 400000.0, [0.0, 399000.0])], goodr))
    W.append(('close-labels', [R], [(5, 400.0, [0.0, 100.0, 200.0, 300.0])], goodr))
    W.append(('only-unalignable', [R2], [(5, 5000.0, [100.0]), (7, 50000.0, [100.0, 20000.0]), long_q], None))
    W.append(('no-similarity', [R2], [(5, 150000.0, [0.0, 2100.0, 4300.0, 6400.0, 8600.0, 10700.0, 140000.0])], None))
    W.append(('only-unlabelled-references', [(4, 50000.0, []), (6, 70000.0, [])], [], good))
    W.append(('reference-id-filter-matches-nothing', [R], [], good, ['-rId', '99']))
    W.append(('query-id-filter-matches-nothing', [R], [], good, ['-qId', '99']))
    W.append(('header-only-reference-file', [], [], good))
    W.append(('header-only-query-file', [R], [], None))
    W.append(('chimeric-with-unplaceable-fragment', [R], [worlds.as_map(5, worlds.apply_edit(list(good[2]), ('chimera', [0.0, 2300.0, 4700.0, 7000.0, 9400.0, 11700.0, 14100.0, 16400.0], 30000.0)))], goodr))
    # first-pass alignment strictly inside the molecule, every combination of short (<= 3 labels) / long unplaceable head and tail:
    # each combination takes another branch of the second-pass fragment code
    foreign = [0.0, 2300.0, 4700.0, 7000.0, 9400.0, 11700.0, 14100.0, 16400.0, 18800.0, 21100.0, 23500.0, 25800.0, 28200.0]
    core_w = worlds.window_query(R, 12, 16, False)[0][2]
    core_r = worlds.window_query(R, 12, 16, True)[0][2]
    for nm, nh, nt, cw in (('short-head-long-tail', 2, 12, core_w), ('long-head-short-tail', 11, 2, core_w), ('long-head-long-tail', 10, 10, core_w),
                           ('short-head-short-tail', 2, 3, core_w), ('short-head-long-tail-reverse', 3, 13, core_r),
                           ('long-head-short-tail-reverse', 12, 1, core_r)):
        q = worlds.apply_edit(worlds.apply_edit(foreign[:nh], ('chimera', cw, 31000.0)), ('chimera', foreign[:nt], 27000.0))
        W.append(('inner-alignment-' + nm, [R], [worlds.as_map(5, q)], goodr))
    return W


class _Timeout(Exception):
    pass


def _alarm(signum, frame):
    raise _Timeout()


def run_checked(world, mode, extra):
    signal.signal(signal.SIGALRM, _alarm)
    signal.alarm(60)
    try:
        obs = driver.run_world(world, mode, extra=list(extra))
    except _Timeout:
        obs = driver.Observation()
        obs.error = 'run-timeout(60s)'
    finally:
        signal.alarm(0)
    return obs


def file_problems(world, obs):
    out = []
    rmaps = cmaptext.parse(cmaptext.text([tuple(m) for m in world['refs']]))
    qmaps = cmaptext.parse(cmaptext.text([tuple(m) for m in world['queries']]))
    ctx = e2e.RunCtx(world)
    readers = e2e._coma_readers(ctx)
    zero = False
    for fk, txt in sorted(obs.files.items()):
        for p in xmaptext.wellformed_problems(txt):
            out.append(('malformed-xmap:' + p.split('=')[0], 'file %s: %s' % (fk, p)))
        probs, n = e2e.readback_problems(txt, readers, rmaps, qmaps, only_valid=True)
        zero = zero or n == 0
        for s, d, sig in probs:
            if s in ('readback-exception', 'readback-count', 'readback-filter', 'readback-filter-exception'):
                out.append((s, 'file %s: %s' % (fk, d)))
    return out, zero


def check_case(wi, setting, mode, acc, cat=None):
    cat = cat or catalogue()
    name, refs, degs, good = cat[wi][:4]
    wargs = list(cat[wi][4]) if len(cat[wi]) > 4 else []
    found = []
    case = dict(world=wi, name=name, setting=list(setting), mode=mode)
    variants = []
    if degs or good is None:
        variants.append(('degenerate-alone', degs))
    if good is not None:
        variants.append(('with-neighbour', list(degs) + [good]))
        if degs:
            variants.append(('neighbour-alone', [good]))
    kept = {}
    zero_seen = False
    for vname, qs in variants:
        w = dict(refs=refs, queries=qs)
        obs = run_checked(w, mode, list(setting) + wargs)
        if obs.error:
            found.append(('run-aborted', '%s [%s] %s' % (name, vname, obs.error), obs.error.split(' @ ')[-1] if ' @ ' in obs.error else 'run',
                          {'error': obs.error.split(':')[0]}))
        else:
            probs, zero = file_problems(w, obs)
            zero_seen = zero_seen or zero
            for s, d in probs:
                found.append((s, '%s [%s] %s' % (name, vname, d), 'files', {}))
            if good is not None:
                kept[vname] = {fk: sorted(xmaptext.record_key(r) for r in xmaptext.parse(t)[2] if r['QryContigID'] == str(good[0]))
                               for fk, t in obs.files.items()}
        if acc is not None:
            acc.evals += 1
            acc.transitions += 3 + sum(obs.map_calls)
            acc.state((name, vname, mode, obs.error.split(':')[0] if obs.error else tuple(sorted((k, len(xmaptext.parse(t)[2])) for k, t in obs.files.items()))))
    if 'with-neighbour' in kept and 'neighbour-alone' in kept and kept['with-neighbour'] != kept['neighbour-alone']:
        found.append(('neighbour-record-changed', '%s: alone %s, with degenerate %s' % (name, kept['neighbour-alone'], kept['with-neighbour']),
                      'interference', {}))
    if acc is not None:
        if setting or zero_seen:
            acc.nontriv((wi, tuple(setting), mode))
        if zero_seen:
            acc.classes['zero-record-file-read-back'] += 1
        for f in found:
            acc.viol(f[0], case, f[1], f[2], f[3])
        acc.sample(case)
    return found


SHELL = [dict(), dict(out_name='results.v2/alignment'), dict(out_name='aligned.txt'), dict(pipe='query'), dict(pipe='reference'), dict(to_stdout=True)]


def check_cli(wi, acc, cat=None, shape=None):
    """the real entry point the way a shell user calls it: -o without an extension inside a directory whose name has a dot, -o with
    another extension, a CMAP arriving through a pipe (/dev/stdin), the XMAP printed on standard output"""
    cat = cat or catalogue()
    name, refs, degs, good = cat[wi][:4]
    wargs = list(cat[wi][4]) if len(cat[wi]) > 4 else []
    qs = list(degs) + ([good] if good is not None else [])
    found = []
    shape = wi % len(SHELL) if shape is None else shape
    kw = SHELL[shape]
    mode = 'best' if kw.get('to_stdout') else 'all'
    case = dict(world=wi, name=name, cli=True, shape=shape)
    w = dict(refs=refs, queries=qs)
    rc, err, files = driver.run_cli(w, mode, extra=wargs, cpus=(2, 3, 16)[wi % 3], **kw)
    sig = {'shape': sorted(kw) or ['plain']}
    if rc != 0 or 'Traceback' in err:
        last = [l for l in err.strip().splitlines() if l.strip()][-1:] or ['']
        found.append(('cli-aborted', '%s %s: exit %s: %s' % (name, kw, rc, last[0][:300]), 'cli', dict(sig, error=last[0].split(':')[0])))
    elif sorted(files) != (['main'] if kw.get('to_stdout') else ['_1', '_2', 'main']):
        found.append(('cli-files-missing', '%s: %s' % (kw, sorted(files)), 'cli', sig))
    else:
        obs = driver.Observation()
        obs.files = files
        probs, zero = file_problems(w, obs)
        for s_, d in probs:
            found.append((s_, '%s %s [cli] %s' % (name, kw, d), 'files', sig))
    if acc is not None:
        acc.evals += 1
        acc.transitions += 1
        acc.classes['cli-runs'] += 1
        for f in found:
            acc.viol(f[0], case, f[1], f[2], f[3])
    return found


class Degenerate(core.Layer):
    def __init__(self, name, sets, modes, with_cli, optional=False):
        self.name, self.optional = name, optional
        self.cat = catalogue()
        self.sets, self.modes, self.with_cli = sets, modes, with_cli
        self.items = [(wi, si) for wi in range(len(self.cat)) for si in range(len(sets))]
        if with_cli:
            self.items += [(wi, 'cli') for wi in range(len(self.cat))] + [(wi, 'cli2') for wi in range(len(self.cat))]
        self.bounds = dict(worlds=[c[0] for c in self.cat], settings=len(sets), modes=list(modes), parameter_menu=MENU,
                           cli_runs=2 * len(self.cat) if with_cli else 0, cli_shapes=['-o x.xmap', '-o dir.v2/name', '-o name.txt', 'query piped', 'reference piped', 'stdout'])
        self.rule = '%d catalogue worlds x up to 3 variants x %d settings x %d modes' % (len(self.cat), len(sets), len(modes))

    def nblocks(self):
        return len(self.items)

    def run_block(self, b, acc):
        wi, si = self.items[b]
        if si in ('cli', 'cli2'):
            acc.seq += 1
            check_cli(wi, acc, self.cat, None if si == 'cli' else (wi + 3) % len(SHELL))
            return
        for mode in self.modes:
            acc.seq += 1
            check_case(wi, self.sets[si], mode, acc, self.cat)

    def replay(self, case):
        if case.get('cli'):
            return check_cli(case['world'], None, None, case.get('shape'))
        return check_case(case['world'], tuple(case['setting']), case['mode'], None)


def layers(tier, seed):
    if tier == 'quick':
        return [Degenerate('dev<=1', settings(1), ('best', 'all'), True)]
    s2 = settings(2)
    return [Degenerate('dev<=1', settings(1), e2e.MODES, True), Degenerate('dev=2', s2[len(settings(1)):], ('best', 'all'), False),
            Degenerate('dev=2,other-modes', s2[len(settings(1)):], ('separate', 'joined'), False, optional=True)]
