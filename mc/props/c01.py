"""C01 - every reported alignment is a one-to-one, collinear matching of real labels.

Layer A (S1): Aligner.align composed exactly as the factory composes it (real scorer, factory, engine, chainer,
resolver) on every label geometry of a lattice x every seed-peak list (1..3 peaks, both orders) x strand x scoring
configuration.  Layer B (S2, module mc.e2e): every record of every file of every world with a bounded number of edits.
"""
from mc import core, lattice
from mc.coma import make_aligner, OpticalMap, Peak, is_pair
from mc.oracles import matching_problems

RULE = ("A: all non-empty reference label subsets x all query subsets containing 0 (x label-number shift) of a step-10 lattice x "
        "all lists of 1..3 distinct seed peaks on the half-step grid (ascending and descending) x strand x maxDistance x "
        "scoring configuration; non-trivial = at least 2 non-empty segments reached conflict resolution; distinct by full input. "
        "B: see mc/e2e.py (worlds x modes; every record of every file)")
ASSUMPTIONS = ["seed peaks are an environment answer chosen by the harness (the statement quantifies over any list of seed peaks)",
               "rows without pairs are legal at this seam (filtered before output)"]

STEP = 10
# (sp, dp, su, ms, bs, sj, ss)
# the second configuration has minScore below a single off-diagonal pair's score, so one-pair segments from neighbouring peaks
# exist and collide (with ms = sp only perfect pairs form one-pair segments - the first space explored missed that, see DESIGN 5/F10)
CONFIGS = [(100, 1, -25, 100, 120, 1, 0), (100, 1, -25, 60, 120, 1, 0), (100, 1, -25, 60, 120, 0.1, 1), (100, 1, -25, 150, 60, 1, 0),
           (100, 1, 0, 100, 120, 1, 0), (100, 1, -25, 100, 120, 1, 1), (100, 1, -25, 100, 120, 0, 0), (100, 5, -25, 60, 30, 1, 0)]


@core.guarded(lambda cfg, maxd, rpos, qpos, shift, peaks, rev, *a: dict(config=list(cfg), maxDistance=maxd, reference=rpos, query=qpos, shift=shift, peaks=peaks, reverse=rev))
def check_case(cfg, maxd, rpos, qpos, shift, peaks, rev, acc, aligner=None, rec=None):
    if aligner is None:
        aligner = make_aligner(maxd, *cfg)
        rec = lattice.RecordingResolver(aligner.segmentConflictResolver)
        aligner.segmentConflictResolver = rec
    ref = OpticalMap(1, rpos[-1] + STEP, rpos)
    q = OpticalMap(2, qpos[-1] + 1, qpos, shift=shift)
    rec.last_in = 0
    row = aligner.align(ref, q, [Peak(p, 10.) for p in peaks], rev)
    pairs = [(p.reference.siteId, p.query.siteId) for p in row.alignedPairs]
    probs = matching_problems(pairs, len(rpos), 1 + shift, len(qpos) + shift, rev)
    found = [(p, 'pairs=%s' % pairs, 'aligner', {'strand': '-' if rev else '+'}) for p in probs]
    if acc is not None:
        nseg = sum(1 for s in row.segments if not s.empty)
        acc.evals += 1
        acc.transitions += 2 + 3 * len(peaks)
        acc.state((rev, tuple((r, q_ - shift) for r, q_ in pairs), nseg))
        if rec.last_in >= 2:
            acc.nontriv((cfg, maxd, tuple(rpos), tuple(qpos), shift, tuple(peaks), rev))
        acc.classes['segments-in=%d' % min(rec.last_in, 4)] += 1
        acc.classes['segments-out=%d' % min(nseg, 4)] += 1
        if nseg < rec.last_in:
            acc.classes['segment-dropped-or-emptied'] += 1
        case = dict(config=list(cfg), maxDistance=maxd, reference=rpos, query=qpos, shift=shift, peaks=peaks, reverse=rev)
        for f in found:
            acc.viol(f[0], case, f[1], f[2], f[3])
        acc.sample(case)
    return found


class LayerA(core.Layer):
    def __init__(self, name, nr, nq, configs, maxds, kmax=3, optional=False, coincident=False):
        self.name = name
        self.optional = optional
        self.refs = lattice.ref_sets(nr, STEP)
        self.qrys = lattice.qry_sets(nq, STEP)
        if coincident:
            # every query set with one of its labels duplicated (two labels at exactly the same coordinate)
            self.qrys = [sorted(q + [x]) for q in self.qrys for x in q]
        self.peaks = lattice.peak_lists(nr, STEP, kmax)
        self.configs = configs
        self.maxds = maxds
        self.bounds = dict(NR=nr, NQ=nq, step=STEP, peaks_per_list=[1, kmax], peak_grid='half-step from -step to step*(NR-1)',
                           peak_orders=['ascending', 'descending'], shifts=[0, 2], strands=['+', '-'], maxDistance=list(maxds),
                           configs_sp_dp_su_ms_bs_sj_ss=[list(c) for c in configs])
        self.rule = '%d reference sets x %d query sets x 2 shifts x %d peak lists x 2 strands x %d configs x %d maxDistance' % (
            len(self.refs), len(self.qrys), len(self.peaks), len(configs), len(maxds))

    def nblocks(self):
        return len(self.configs) * len(self.maxds) * len(self.refs)

    def run_block(self, b, acc):
        nr = len(self.refs)
        cfg = self.configs[b // (len(self.maxds) * nr)]
        maxd = self.maxds[(b // nr) % len(self.maxds)]
        rpos = self.refs[b % nr]
        aligner = make_aligner(maxd, *cfg)
        rec = lattice.RecordingResolver(aligner.segmentConflictResolver)
        aligner.segmentConflictResolver = rec
        for qpos in self.qrys:
            for shift in (0, 2):
                for peaks in self.peaks:
                    for rev in (False, True):
                        acc.seq += 1
                        check_case(cfg, maxd, rpos, qpos, shift, peaks, rev, acc, aligner, rec)

    def replay(self, case):
        return check_case(tuple(case['config']), case['maxDistance'], case['reference'], case['query'], case['shift'],
                          case['peaks'], case['reverse'], None)


class LadderA(core.Layer):
    """long molecules with an indel ladder (two diagonals, small overlap): chained segments whose merge point is interior"""

    def __init__(self, name, full, configs, optional=False):
        self.name, self.optional = name, optional
        self.cases = list(lattice.ladder_cases(full))
        self.configs = configs
        self.chunk = 40
        self.bounds = dict(worlds='indel-ladder worlds of mc.props.c15.ladder_worlds(full=%s)' % full, peaks_per_list=[1, 3], maxDistance=[4, 6],
                           strands=['+ q', '- mirror(q)', '- q'], configs=[list(c) for c in configs])
        self.rule = '%d (world, peak list) cases x 2 strands x 2 maxDistance x %d configs' % (len(self.cases), len(configs))

    def nblocks(self):
        return (len(self.cases) + self.chunk - 1) // self.chunk

    def run_block(self, b, acc):
        for name, ref, q, peaks in self.cases[b * self.chunk:(b + 1) * self.chunk]:
            for cfg in self.configs:
                for maxd in (4, 6):
                    for rev, qq in ((False, q), (True, sorted(q[-1] - p for p in q)), (True, q)):
                        acc.seq += 1
                        check_case(cfg, maxd, ref, qq, 0, peaks, rev, acc)

    def replay(self, case):
        return check_case(tuple(case['config']), case['maxDistance'], case['reference'], case['query'], case['shift'],
                          case['peaks'], case['reverse'], None)


class JoinSeam(core.Layer):
    """rows joined by AlignmentResults.resolve from a first- and a second-pass row of one two-part lattice molecule (mc/joinseam.py):
    every joined row must be a valid matching"""
    name = 'A:join-seam'
    optional = False

    def __init__(self):
        from mc import joinseam
        self.cases = joinseam.cases()
        self.chunk = 12
        self.bounds = dict(cases=len(self.cases), parts=[joinseam.N1, list(joinseam.N2S)], placements='collinear with 0/1/3/6 labels between, transposed with 0/1/3',
                           gaps=['true', 'insertion', 'small'], strands=['+', '-'], maxDifference=[0, 4000, 1000000])
        self.rule = '%d two-part molecules (placement x order of the parts x gap x strand x maxDifference) through align / getUnalignedFragments / align / resolve' % len(self.cases)

    def nblocks(self):
        return (len(self.cases) + self.chunk - 1) // self.chunk

    def run_block(self, b, acc):
        for c in self.cases[b * self.chunk:(b + 1) * self.chunk]:
            acc.seq += 1
            check_join(c, acc)

    def replay(self, case):
        c = case['case']
        return check_join((c['first_pass_part'][0], c['other_part'][0], c['first_pass_part_leads'], c['gap'], c['reverse'], c['maxDifference'], c.get('junk', 0), c['other_part'][1]), None)


@core.guarded(lambda c, *a: dict(kind='join', case=__import__('mc.joinseam', fromlist=['x']).describe(c)))
def check_join(c, acc):
    from mc import joinseam
    o = joinseam.run(c)
    found = []
    case = dict(kind='join', case=joinseam.describe(c))
    for j in o['joined']:
        for p in matching_problems(j['pairs'], len(joinseam.REF), 1, o['n'], j['reverse']):
            found.append(('joined:' + p, 'joined %s from first-pass %s and second-pass %s' % (j['pairs'], o['first'], o['second']), 'join',
                          {'strand': '-' if j['reverse'] else '+'}))
        if not j['pairs']:
            found.append(('joined:no-pair', '', 'join', {}))
    if acc is not None:
        acc.evals += 1
        acc.transitions += 2 + len(o['second']) + len(o['joined'])
        acc.state(('j', len(o['first']), tuple(len(x) for x in o['second']), tuple(len(j['pairs']) for j in o['joined'])))
        if o['second']:
            acc.nontriv(('j',) + tuple(c))
        acc.classes['join-seam:joined' if o['joined'] else ('join-seam:two-rows-not-joined' if o['second'] else 'join-seam:one-row')] += 1
        for f in found:
            acc.viol(f[0], case, f[1], f[2], f[3])
        acc.sample(case)
    return found


def layers(tier, seed):
    from mc import e2e
    if tier == 'quick':
        return [LayerA('A:NR5,NQ4', 5, 4, CONFIGS[:3], (4, 6)), LayerA('A:coincident,NR4,NQ3', 4, 3, CONFIGS[:2], (6,), coincident=True),
                LadderA('A:indel-ladders', False, CONFIGS[:3]), JoinSeam()] + e2e.c01_layers(tier, seed)
    return [LayerA('A:NR5,NQ4', 5, 4, CONFIGS, (4, 6)), LayerA('A:coincident,NR5,NQ4', 5, 4, CONFIGS[:3], (4, 6), coincident=True), LadderA('A:indel-ladders', True, CONFIGS), JoinSeam(), LayerA('A:NR6,NQ5', 6, 5, CONFIGS, (4, 6))] + e2e.c01_layers(tier, seed) + \
           [LayerA('A:NR7,NQ5', 7, 5, CONFIGS[:3], (4, 6), optional=True)]
