"""C20 - indel calls are self-consistent and clustering conserves every call.

S1: (a) cluster_indels on every sorted call list over a blur-boundary lattice; (b) write_indel_file on the same lists (real file,
parsed back from text); (c) both look_for_indels_in_breakage functions on small alignments x breakpoints x gap pairs that hit the
100 / 2000 / 100000 thresholds +-1.
"""
import copy
import itertools
import os

from mc import core

core.setup_repo_path()
from write_indel_files import cluster_indels, write_indel_file  # noqa: E402  (flat modules of /repo/sv)
import molecule_indels  # noqa: E402
import segment_indels  # noqa: E402
from src.correlation.bionano_alignment import BionanoAlignment  # noqa: E402
from src.diagnostic.benchmark_alignment import BenchmarkAlignedPair as BP, BenchmarkAlignmentPosition as BPos  # noqa: E402

RULE = ("(a) all lists of n calls (n bound) sorted by (chromosome, refStop), each call = type {insertion,deletion} x chromosome {1,2} x "
        "(refStart<=refStop) over {0,b-1,b,b+1,2b,2b+1}, blur b=4, single-type and mixed lists; (b) the same lists (scaled to b=30000) "
        "through write_indel_file; (c) 3-pair alignments x breakpoint x (reference gap, query gap) pairs around the thresholds x strand x "
        "both finders, plus molecule_indels.run end to end on files (1-3 joined molecules on two references, query ids that also occur as reference ids), plus runs with two alignments and (segment finder) two join points per molecule in either order; non-trivial = (a,b) two neighbouring calls lie within the blur distance, (c) |diff| within 1 of a threshold")
ASSUMPTIONS = ["call rows have the 8 fields the finders emit; query ids are distinct",
               "sv modules are imported flat from $COMA_REPO/sv as the scripts themselves do"]

QUERY_IDS = [2312, 12, 231, 5, 105, 31]      # distinct ids, some of which are substrings of others when written in decimal
B = 4
COORDS = [0, B - 1, B, B + 1, 2 * B, 2 * B + 1]
CALLS = [(t, c, s, e) for t in ('deletion', 'insertion') for c in (1, 2) for s in COORDS for e in COORDS if s <= e]


def conservation_problems(snap, out, n):
    bad = []
    if any(len(o) != 9 for o in out):
        return [('cluster-row-shape', str(out))]
    if sum(o[8] for o in out) != n:
        bad.append(('count-sum', 'sum of Count %s != %d calls; out=%s' % (sum(o[8] for o in out), n, out)))
    ids = [i for o in out for i in str(o[4]).split(',')]
    if sorted(ids) != sorted(str(x[4]) for x in snap):
        bad.append(('query-ids-not-conserved', 'ids %s; out=%s' % (ids, out)))
    for o in out:
        members = [x for x in snap if str(x[4]) in str(o[4]).split(',')]
        if o[8] != len(members):
            bad.append(('count-differs-from-members', str(o)))
        if any(m[0] != o[0] or m[1] != o[1] for m in members):
            bad.append(('cluster-mixes-type-or-chromosome', str(o)))
        if any(m[2] < o[2] or m[3] > o[3] for m in members):
            bad.append(('cluster-interval-does-not-cover-member', str(o)))
    return bad


@core.guarded(lambda lst, *a: dict(kind='cluster', calls=[list(x) for x in lst], blur=B))
def check_cluster(lst, acc):
    n = len(lst)
    inp = [[t, c, s, e, QUERY_IDS[i], 0, 1, 7] for i, (t, c, s, e) in enumerate(lst)]
    snap = copy.deepcopy(inp)
    found = []
    case = dict(kind='cluster', calls=[list(x) for x in lst], blur=B)
    sig = {'mixed_types': len({x[0] for x in lst}) > 1}
    try:
        out = cluster_indels(inp, blur=B)
    except Exception as e:
        out = None
        found.append(('cluster-exception', '%s: %s' % (type(e).__name__, e), 'cluster_indels', sig))
    if out is not None:
        found += [(s, 'calls=%s | %s' % (lst, d), 'cluster_indels', sig) for s, d in conservation_problems(snap, out, n)]
        # the caller's list once more (e.g. with another blur): the calls are still the calls
        try:
            out2 = cluster_indels(inp, blur=B)
            found += [('second-clustering-of-the-same-calls:' + s, 'calls=%s | %s' % (lst, d), 'cluster_indels', sig)
                      for s, d in conservation_problems(snap, out2, n)][:1]
        except Exception as e:
            found.append(('second-clustering-of-the-same-calls:exception', '%s: %s' % (type(e).__name__, e), 'cluster_indels', sig))
    if acc is not None:
        acc.evals += 1
        acc.transitions += max(1, n)
        if out is not None:
            acc.state(tuple((o[0], o[1], o[2], o[3], o[8]) for o in out))
        if any(abs(a[3] - b[3]) <= B for a, b in zip(lst, lst[1:])):
            acc.nontriv(tuple(lst))
        acc.classes['calls=%d' % n] += 1
        if out is not None and len(out) < n:
            acc.classes['merged'] += 1
        for f in found:
            acc.viol(f[0], case, f[1], f[2], f[3])
        acc.sample(case)
    return found


def check_write(ins, dels, acc, off=0):
    k = 7500
    # off: coordinates with nine significant digits (12 Mb, one decimal) - what real chromosomes have
    mk = lambda lst, base: [[t, c, s * k + off, e * k + off, QUERY_IDS[base + i], 0, 1, 7] for i, (t, c, s, e) in enumerate(lst)]  # noqa: E731
    d_ins, d_del = mk(ins, 0), mk(dels, 3)
    path = os.path.join(core.scratch_dir(), 'indels-%d.txt' % os.getpid())
    found = []
    case = dict(kind='write', insertions=[list(x) for x in ins], deletions=[list(x) for x in dels], offset=off)
    sig = {'mixed_types': False}
    snap = copy.deepcopy(d_ins + d_del)
    try:
        write_indel_file({'insertion': d_ins, 'deletion': d_del}, 'x.xmap', file_name=path)
        rows = [l.rstrip('\n').split('\t') for l in open(path) if not l.startswith('#')]
        num = (lambda x: int(float(x))) if not off else float
        out = [[r[0], int(r[1]), num(r[2]), num(r[3]), r[4], r[5], r[6], float(r[7]), int(r[8])] for r in rows]
    except Exception as e:
        out = None
        found.append(('write-exception', '%s: %s' % (type(e).__name__, e), 'write_indel_file', sig))
    if out is not None:
        found += [(s, 'ins=%s del=%s | %s' % (ins, dels, d), 'write_indel_file', sig)
                  for s, d in conservation_problems(snap, out, len(snap))]
    if acc is not None:
        acc.evals += 1
        acc.transitions += 3
        if out is not None:
            acc.state(('w',) + tuple((o[0], o[1], int(o[2] - off) // k, int(o[3] - off) // k, o[8]) for o in out))
        if len(ins) + len(dels) >= 2:
            acc.nontriv(('w', tuple(ins), tuple(dels)))
        for f in found:
            acc.viol(f[0], case, f[1], f[2], f[3])
        acc.sample(case)
    return found


class _Map:
    def __init__(self, positions):
        self.positions = positions


DELTAS = [0] + [s * v for v in (99, 100, 101, 1999, 2000, 2001, 99999, 100000, 100001) for s in (1, -1)]


@core.guarded(lambda which, bp, d1, d2, rev, acc=None, gq=150000: dict(kind='finder', finder=which, breakpoint=bp, ref_delta=[d1, d2], reverse=rev, query_gap=gq))
def check_finder(which, bp, d1, d2, rev, acc, gq=150000):
    rpos = [1000, 1000 + gq + d1, 1000 + 2 * gq + d1 + d2]
    qpos = [500, 500 + gq, 500 + 2 * gq]
    pairs = [(1, 1), (2, 2), (3, 3)] if not rev else [(1, 3), (2, 2), (3, 1)]
    ap = [BP(BPos(r, 0), BPos(q, 0)) for r, q in pairs]
    al = BionanoAlignment(1, 9, 4, 0, 0, 0, 0, rev, 1.0, '', 1, 1, ap)
    adict = {4: [al]}
    found = []
    case = dict(kind='finder', finder=which, breakpoint=bp, ref_delta=[d1, d2], reverse=rev, query_gap=gq)
    try:
        if which == 'molecule':
            res = molecule_indels.look_for_indels_in_breakage(adict, {4: _Map(rpos)}, {9: _Map(qpos)}, {9: [bp, ap[bp]]})
            lo, hi = 2000, 100000
        else:
            res = segment_indels.look_for_indels_in_breakage(adict, {4: _Map(rpos)}, {9: _Map(qpos)}, {9: [[bp, str(ap[bp])]]})
            lo, hi = 100, 100000
    except Exception as e:
        res = None
        found.append(('finder-exception', '%s: %s' % (type(e).__name__, e), which, {}))
    rs, re_ = rpos[pairs[bp][0] - 1], rpos[pairs[bp + 1][0] - 1]
    qs, qe = qpos[pairs[bp][1] - 1], qpos[pairs[bp + 1][1] - 1]
    diff = abs(rs - re_) - abs(qs - qe)
    if res is not None:
        calls = [(k, c) for k, v in res.items() for c in v]
        if len(calls) > 8:
            # far more calls than join points (e.g. calls of earlier runs coming back): one finding, not one per call
            found.append(('more-than-one-call-for-one-breakpoint', 'diff %s -> %d calls' % (diff, len(calls)), which, {}))
            calls = []
        for k, c in calls:
            if c[0] != k:
                found.append(('call-filed-under-other-type', str(c), which, {}))
            if c[7] != diff:
                found.append(('length-is-not-reference-gap-minus-query-gap', 'call %s expected %s' % (c, diff), which, {}))
            if (c[0] == 'insertion') != (c[7] < 0):
                found.append(('type-sign', str(c), which, {}))
            if [c[2], c[3], c[5], c[6]] != [rs, re_, qs, qe] or c[1] != 4 or c[4] != 9:
                found.append(('call-coordinates', 'call %s expected %s' % (c, [rs, re_, qs, qe]), which, {}))
        # which gap differences are reported at all (the 100 / 2000 / 100000 thresholds) is not part of the statement; only the
        # calls that ARE emitted are judged, and one breakpoint must not yield more than one call
        if len(calls) > 1:
            found.append(('more-than-one-call-for-one-breakpoint', 'diff %s -> %d calls' % (diff, len(calls)), which, {}))
        if acc is not None and calls:
            acc.classes['calls-emitted'] += 1
    if acc is not None:
        acc.evals += 1
        acc.transitions += 1
        acc.state(('f', which, None if res is None else tuple((c[0], c[7]) for v in res.values() for c in v)))
        if any(abs(abs(diff) - t) <= 1 for t in (100, 2000, 100000)):
            acc.nontriv((which, bp, d1, d2, rev, gq))
        for f in found:
            acc.viol(f[0], case, f[1], f[2], f[3])
        acc.sample(case)
    return found


def _describe_same_start(which, dA, dB, rev, acc=None):
    return dict(kind='finder-same-start', finder=which, deltas=[dA, dB], reverse=rev)


@core.guarded(_describe_same_start)
def check_same_start(which, dA, dB, rev, acc):
    """two molecules on ONE reference whose join points start at the same reference label and end at different ones"""
    ref = [1000, 151000, 300000, 330000]
    specs = ((9, (1, 2, 3), dA), (12, (1, 2, 4), dB))
    adict, qdict, bdict, expected = {4: []}, {}, {}, {}
    for qid, rl, d in specs:
        rp = [ref[i - 1] for i in rl]
        qpos = [500 + qid, 500 + qid + (rp[1] - rp[0]), 500 + qid + (rp[1] - rp[0]) + (rp[2] - rp[1]) - d]
        pairs = [(rl[0], 1), (rl[1], 2), (rl[2], 3)] if not rev else [(rl[0], 3), (rl[1], 2), (rl[2], 1)]
        if rev:
            qpos = sorted(qpos[-1] + 500 - p for p in qpos)
        ap = [BP(BPos(r, 0), BPos(q, 0)) for r, q in pairs]
        adict[4].append(BionanoAlignment(1, qid, 4, 0, 0, 0, 0, rev, 1.0, '', 1, 1, ap))
        qdict[qid] = _Map(qpos)
        bdict[qid] = [1, ap[1]] if which == 'molecule' else [[1, str(ap[1])]]
        rs, re_ = ref[pairs[1][0] - 1], ref[pairs[2][0] - 1]
        qs, qe = qpos[pairs[1][1] - 1], qpos[pairs[2][1] - 1]
        expected[qid] = (rs, re_, qs, qe, abs(rs - re_) - abs(qs - qe))
    found = []
    case = _describe_same_start(which, dA, dB, rev)
    try:
        mod = molecule_indels if which == 'molecule' else segment_indels
        res = mod.look_for_indels_in_breakage(adict, {4: _Map(ref)}, qdict, bdict)
    except Exception as e:
        res = None
        found.append(('finder-exception', '%s: %s' % (type(e).__name__, e), which, {}))
    if res is not None:
        for k, v in res.items():
            for c in v[:6]:
                e = expected.get(c[4])
                if e is None:
                    found.append(('call-for-no-join-point', str(c), which, {}))
                elif [c[2], c[3], c[5], c[6], c[7]] != list(e):
                    found.append(('call-coordinates', 'call %s, expected ref/query/length %s' % (c, list(e)), which, {'same_start': True}))
    if acc is not None:
        acc.evals += 1
        acc.transitions += 2
        acc.state(('ss', which, None if res is None else tuple(sorted((c[4], c[7]) for v in res.values() for c in v))))
        acc.nontriv((which, dA, dB, rev))
        for f in found:
            acc.viol(f[0], case, f[1], f[2], f[3])
        acc.sample(case)
    return found


D2 = [0, 101, -101, 2001, -2001, 100001, -100001]


def _describe_multi(which, specs, acc=None, gq=150000):
    return dict(kind='finder-sequence', finder=which, alignments=[list(x) for x in specs], query_gap=gq)


@core.guarded(_describe_multi)
def check_finder_multi(which, specs, acc, gq=150000):
    """several alignments in one call, several join points in one molecule (segment finder): every emitted call must be the
    self-consistent call of exactly one (molecule, join point); specs: (query id, reference id, reverse, d1, d2, [breakpoints])"""
    adict, rdict, qdict, bdict, expected = {}, {}, {}, {}, {}
    found = []
    case = _describe_multi(which, specs, None, gq)
    for qid, rid, rev, d1, d2, bps in specs:
        rpos = [1000 * rid, 1000 * rid + gq + d1, 1000 * rid + 2 * gq + d1 + d2]
        qpos = [50 * qid, 50 * qid + gq, 50 * qid + 2 * gq]
        pairs = [(1, 1), (2, 2), (3, 3)] if not rev else [(1, 3), (2, 2), (3, 1)]
        ap = [BP(BPos(r, 0), BPos(q, 0)) for r, q in pairs]
        al = BionanoAlignment(1, qid, rid, 0, 0, 0, 0, rev, 1.0, '', 1, 1, ap)
        adict.setdefault(rid, []).append(al)
        rdict[rid] = _Map(rpos)        # one alignment per reference id in every spec list
        qdict[qid] = _Map(qpos)
        bdict[qid] = [bps[0], ap[bps[0]]] if which == 'molecule' else [[bp, str(ap[bp])] for bp in bps]
        for bp in bps:
            rs, re_ = rpos[pairs[bp][0] - 1], rpos[pairs[bp + 1][0] - 1]
            qs, qe = qpos[pairs[bp][1] - 1], qpos[pairs[bp + 1][1] - 1]
            expected[(qid, rs, re_)] = (rid, qs, qe, abs(rs - re_) - abs(qs - qe))
    try:
        mod = molecule_indels if which == 'molecule' else segment_indels
        res = mod.look_for_indels_in_breakage(adict, rdict, qdict, bdict)
    except Exception as e:
        res = None
        found.append(('finder-exception', '%s: %s' % (type(e).__name__, e), which, {'alignments': len(specs)}))
    ncalls = 0
    if res is not None:
        seen = set()
        if sum(len(v) for v in res.values()) > 4 * len(expected) + 4:
            found.append(('call-for-no-join-point', '%d calls for %d join points' % (sum(len(v) for v in res.values()), len(expected)), which,
                          {'alignments': len(specs)}))
            res = {}
        for k, v in res.items():
            for c in v:
                ncalls += 1
                key = (c[4], c[2], c[3])
                if key not in expected:
                    found.append(('call-for-no-join-point', str(c), which, {'alignments': len(specs)}))
                    continue
                rid, qs, qe, diff = expected[key]
                if key in seen:
                    found.append(('more-than-one-call-for-one-breakpoint', str(c), which, {'alignments': len(specs)}))
                seen.add(key)
                if c[0] != k:
                    found.append(('call-filed-under-other-type', str(c), which, {'alignments': len(specs)}))
                if c[7] != diff:
                    found.append(('length-is-not-reference-gap-minus-query-gap', 'call %s expected %s' % (c, diff), which, {'alignments': len(specs)}))
                if (c[0] == 'insertion') != (c[7] < 0):
                    found.append(('type-sign', str(c), which, {'alignments': len(specs)}))
                if [c[1], c[5], c[6]] != [rid, qs, qe]:
                    found.append(('call-coordinates', 'call %s expected %s' % (c, [rid, qs, qe]), which, {'alignments': len(specs)}))
    if acc is not None:
        acc.evals += 1
        acc.transitions += sum(len(x[5]) for x in specs)
        acc.state(('fm', which, None if res is None else tuple(sorted((c[0], c[4], c[7]) for v in res.values() for c in v))))
        if ncalls >= 2:
            acc.nontriv((which, tuple(tuple(map(str, x)) for x in specs)))
            acc.classes['several-calls-in-one-run'] += 1
        for f in found:
            acc.viol(f[0], case, f[1], f[2], f[3])
        acc.sample(case)
    return found


# ------------------------------------------------------------------------------------------------
# end to end: molecule_indels.run on files (two references, query ids that also occur as reference ids)

XHEAD = ("# XMAP File Version:\t0.2\n#h\tXmapEntryID\tQryContigID\tRefContigID\tQryStartPos\tQryEndPos\tRefStartPos\tRefEndPos\tOrientation\t"
         "Confidence\tHitEnum\tQryLen\tRefLen\tAlignedRest\tLabelChannel\tAlignment\n"
         "#f\tint\tint\tint\tfloat\tfloat\tfloat\tfloat\tstring\tfloat\tstring\tfloat\tfloat\tstring\tint\tstring\n")
E2E_REF = [100000 + i * 40000 for i in range(16)]
E2E_QIDS = (1, 7, 2)
E2E_D = (2001, -2001, 5000)


def _xmap(records):
    out = [XHEAD]
    for i, (qid, rid, rev, pairs, rest) in enumerate(records):
        out.append('%d\t%d\t%d\t0.0\t1.0\t0.0\t1.0\t%s\t10.00\t%dM\t1.0\t1.0\t%s\t1\t%s\n' % (
            i + 1, qid, rid, '-' if rev else '+', len(pairs), rest, ''.join('(%d,%d)' % p for p in pairs)))
    return ''.join(out)


def _describe_e2e(spec, rev, acc=None):
    return dict(kind='finder-files', molecules=[list(x) for x in spec], reverse=rev)


@core.guarded(_describe_e2e)
def check_files(spec, rev, acc):
    """spec: [(query id, reference id, indel length d)] - each molecule is aligned in two parts of three labels that were joined"""
    import argparse
    from mc import cmaptext
    d_ = os.path.join(core.scratch_dir(), 'c20-files-%d' % os.getpid())
    os.makedirs(d_, exist_ok=True)
    used = {}
    qmaps, joined, firsts, seconds, expected = [], [], [], [], []
    for qid, rid, d in spec:
        a = used.get(rid, 0)
        used[rid] = a + 5
        r = E2E_REF[a:a + 6]
        fpos = [500.0 + (r[i] - r[0]) for i in range(3)] + [500.0 + (r[i] - r[0]) - d for i in range(3, 6)]
        if not rev:
            qpos = fpos
            pairs = [(a + 1 + i, 1 + i) for i in range(6)]
        else:
            qpos = sorted(fpos[-1] + 500.0 - p for p in fpos)
            pairs = [(a + 1 + i, 6 - i) for i in range(6)]
        qmaps.append((qid, qpos[-1] + 700.0, qpos))
        joined.append((qid, rid, rev, pairs, False))
        firsts.append((qid, rid, rev, pairs[:3], False))
        seconds.append((qid, rid, rev, pairs[3:], True))
        rs, re_ = E2E_REF[pairs[2][0] - 1], E2E_REF[pairs[3][0] - 1]
        qs, qe = qpos[pairs[2][1] - 1], qpos[pairs[3][1] - 1]
        expected.append((qid, rid, rs, re_, qs, qe, abs(rs - re_) - abs(qs - qe)))
    paths = {k: os.path.join(d_, k) for k in ('r.cmap', 'q.cmap', 'j.xmap', 'f.xmap', 's.xmap', 'out.txt')}
    with open(paths['r.cmap'], 'w') as f:
        f.write(cmaptext.text([(1, E2E_REF[-1] + 5000.0, [float(x) for x in E2E_REF]), (2, E2E_REF[-1] + 9000.0, [float(x) for x in E2E_REF])]))
    with open(paths['q.cmap'], 'w') as f:
        f.write(cmaptext.text(qmaps))
    for k, recs in (('j.xmap', joined), ('f.xmap', firsts), ('s.xmap', seconds)):
        with open(paths[k], 'w') as f:
            f.write(_xmap(recs))
    if os.path.exists(paths['out.txt']):
        os.remove(paths['out.txt'])
    found = []
    case = _describe_e2e(spec, rev)
    sig = {'molecules': min(len(spec), 2)}
    rows = None
    try:
        molecule_indels.run(argparse.Namespace(referenceFile=paths['r.cmap'], queryFile=paths['q.cmap'], joinedFile=paths['j.xmap'],
                                               firstFile=paths['f.xmap'], secondFile=paths['s.xmap'], outputFile=paths['out.txt']))
        rows = [l.rstrip('\n').split('\t') for l in open(paths['out.txt']) if not l.startswith('#')]
    except Exception as e:
        found.append(('finder-run-exception', '%s: %s' % (type(e).__name__, str(e)[:200]), 'molecule', sig))
    if rows is not None:
        exp = {str(e[0]): e for e in expected if 2000 < abs(e[6]) < 100000}
        seen = set()
        for r in rows:
            if len(r) != 9:
                found.append(('output-row-shape', str(r), 'molecule', sig))
                continue
            if ',' in r[4]:
                continue        # merged calls are judged by the clustering layers
            e = exp.get(r[4])
            if e is None:
                found.append(('call-for-no-join-point', 'row %s; molecules %s' % (r, spec), 'molecule', sig))
                continue
            if r[4] in seen:
                found.append(('more-than-one-call-for-one-breakpoint', str(r), 'molecule', sig))
            seen.add(r[4])
            got = (int(r[1]), float(r[2]), float(r[3]), float(r[5]), float(r[6]), float(r[7]))
            want = (e[1], float(e[2]), float(e[3]), float(e[4]), float(e[5]), float(e[6]))
            if got != want:
                found.append(('call-coordinates', 'row %s, expected chromosome/ref/query/length %s' % (r, want), 'molecule', sig))
            if (r[0] == 'insertion') != (e[6] < 0):
                found.append(('type-sign', str(r), 'molecule', sig))
    if acc is not None:
        acc.evals += 1
        acc.transitions += len(spec) + 4
        acc.state(('ff', tuple(tuple(r[:2] + r[4:5]) for r in rows or ())))
        if any(q in (1, 2) for q, _, _ in spec):
            acc.nontriv(('ff', tuple(spec), rev))
            acc.classes['query-id-equals-a-reference-id'] += 1
        for f in found:
            acc.viol(f[0], case, f[1], f[2], f[3])
        acc.sample(case)
    return found


def file_specs():
    for k in (1, 2, 3):
        for qids in itertools.permutations(E2E_QIDS, k):
            if list(qids) != sorted(qids, key=E2E_QIDS.index):
                continue
            for rids in itertools.product((1, 2), repeat=k):
                for ds in itertools.product(E2E_D, repeat=k):
                    yield [(q, r, d) for q, r, d in zip(qids, rids, ds)]


def sorted_lists(n):
    """all lists of n calls that are already sorted by (chromosome, refStop) - the order the writer produces"""
    for combo in itertools.product(range(len(CALLS)), repeat=n):
        lst = [CALLS[i] for i in combo]
        ks = [(x[1], x[3]) for x in lst]
        if all(a <= b for a, b in zip(ks, ks[1:])) and (n < 2 or all(ks[i] < ks[i + 1] or combo[i] <= combo[i + 1] for i in range(n - 1))):
            yield lst


class Clusters(core.Layer):
    def __init__(self, name, nmax, optional=False):
        self.name, self.optional, self.nmax = name, optional, nmax
        self.bounds = dict(calls_per_list=[0, nmax], call_alphabet=len(CALLS), blur=B, lattice=COORDS)
        self.rule = 'all sorted lists of <= %d calls over an alphabet of %d calls' % (nmax, len(CALLS))

    def nblocks(self):
        return len(CALLS) + 2

    def run_block(self, b, acc):
        if b == len(CALLS):
            acc.seq += 1
            check_cluster([], acc)
            for which in ('molecule', 'segment'):
                for bp in (0, 1):
                    for gq in (150000, 10000):      # large and small query gaps (a sign error must stay inside the reporting window)
                        for d1 in DELTAS:
                            for d2 in DELTAS:
                                if min(d1, d2) <= -gq:
                                    continue
                                for rev in (False, True):
                                    acc.seq += 1
                                    check_finder(which, bp, d1, d2, rev, acc, gq)
            for which in ('molecule', 'segment'):
                for dA in (2001, -2001, 5000):
                    for dB in (2500, -3000, 8000):
                        for rev in (False, True):
                            acc.seq += 1
                            check_same_start(which, dA, dB, rev, acc)
            for which in ('molecule', 'segment'):
                bsets = [[0], [1]] if which == 'molecule' else [[0, 1], [1, 0], [0], [1]]
                for bps in bsets:
                    for d1 in D2:
                        for d2 in D2:
                            for rev in (False, True):
                                acc.seq += 1
                                check_finder_multi(which, [(9, 4, rev, d1, d2, bps)], acc)
                                for d3 in D2[1:5]:
                                    for rev2 in (False, True):
                                        acc.seq += 1
                                        check_finder_multi(which, [(9, 4, rev, d1, d2, bps), (12, 5, rev2, d3, 0, [0])], acc)
            return
        if b == len(CALLS) + 1:
            single = [c for c in CALLS if c[0] == 'insertion'][::3]
            singled = [c for c in CALLS if c[0] == 'deletion'][::3]
            for ni in range(0, 3):
                for nd in range(0, 3):
                    for ins in itertools.combinations(single, ni):
                        for dels in itertools.combinations(singled, nd):
                            for off in (0, 12320432.1):
                                acc.seq += 1
                                check_write(list(ins), list(dels), acc, off)
            return
        first = CALLS[b]
        for n in range(1, self.nmax + 1):
            for rest in (sorted_lists(n - 1) if n > 1 else [[]]):
                lst = [first] + rest
                ks = [(x[1], x[3]) for x in lst[:2]]
                if len(lst) > 1 and not (ks[0] < ks[1] or (ks[0] == ks[1] and CALLS.index(lst[0]) <= CALLS.index(lst[1]))):
                    continue
                acc.seq += 1
                check_cluster(lst, acc)

    def replay(self, case):
        if case['kind'] == 'cluster':
            return check_cluster([tuple(x) for x in case['calls']], None)
        if case['kind'] == 'write':
            return check_write([tuple(x) for x in case['insertions']], [tuple(x) for x in case['deletions']], None, case.get('offset', 0))
        if case['kind'] == 'finder-same-start':
            return check_same_start(case['finder'], case['deltas'][0], case['deltas'][1], case['reverse'], None)
        if case['kind'] == 'finder-sequence':
            return check_finder_multi(case['finder'], [tuple(x) for x in case['alignments']], None, case.get('query_gap', 150000))
        return check_finder(case['finder'], case['breakpoint'], case['ref_delta'][0], case['ref_delta'][1], case['reverse'], None, case.get('query_gap', 150000))


class FinderFiles(core.Layer):
    name = 'files:molecule-finder'
    optional = False

    def __init__(self):
        self.specs = list(file_specs())
        self.chunk = 12
        self.bounds = dict(molecules_per_run=[1, 3], query_ids=list(E2E_QIDS), reference_ids=[1, 2], indel_lengths=list(E2E_D), strands=['+', '-'])
        self.rule = '%d molecule sets (ordered subsets of 3 query ids x reference assignment x indel lengths) x 2 strands through molecule_indels.run on files' % len(self.specs)

    def nblocks(self):
        return (len(self.specs) + self.chunk - 1) // self.chunk

    def run_block(self, b, acc):
        for spec in self.specs[b * self.chunk:(b + 1) * self.chunk]:
            for rev in (False, True):
                acc.seq += 1
                check_files(spec, rev, acc)

    def replay(self, case):
        return check_files([tuple(x) for x in case['molecules']], case['reverse'], None)


def layers(tier, seed):
    if tier == 'quick':
        return [Clusters('n<=3', 3), FinderFiles()]
    return [Clusters('n<=3', 3), FinderFiles(), Clusters('n=4', 4, optional=True)]
