"""C20 - indel calls are self-consistent and clustering conserves every call.

S1: (a) cluster_indels on every sorted call list over a blur-boundary lattice; (b) write_indel_file on the same lists (real file,
parsed back from text); (c) both look_for_indels_in_breakage functions on small alignments x breakpoints x gap pairs that hit the
100 / 2000 / 100000 thresholds +-1.
"""
import copy
import itertools
import os

from mc import core

core.setup_repo_path()
from write_indel_files import cluster_indels, write_indel_file  # noqa: E402  (flat modules of /repo/sv)
import molecule_indels  # noqa: E402
import segment_indels  # noqa: E402
from src.correlation.bionano_alignment import BionanoAlignment  # noqa: E402
from src.diagnostic.benchmark_alignment import BenchmarkAlignedPair as BP, BenchmarkAlignmentPosition as BPos  # noqa: E402

RULE = ("(a) all lists of n calls (n bound) sorted by (chromosome, refStop), each call = type {insertion,deletion} x chromosome {1,2} x "
        "(refStart<=refStop) over {0,b-1,b,b+1,2b,2b+1}, blur b=4, single-type and mixed lists; (b) the same lists (scaled to b=30000) "
        "through write_indel_file; (c) 3-pair alignments x breakpoint x (reference gap, query gap) pairs around the thresholds x strand x "
        "both finders, plus runs with two alignments and (segment finder) two join points per molecule in either order; non-trivial = (a,b) two neighbouring calls lie within the blur distance, (c) |diff| within 1 of a threshold")
ASSUMPTIONS = ["call rows have the 8 fields the finders emit; query ids are distinct",
               "sv modules are imported flat from $COMA_REPO/sv as the scripts themselves do"]

QUERY_IDS = [2312, 12, 231, 5, 105, 31]      # distinct ids, some of which are substrings of others when written in decimal
B = 4
COORDS = [0, B - 1, B, B + 1, 2 * B, 2 * B + 1]
CALLS = [(t, c, s, e) for t in ('deletion', 'insertion') for c in (1, 2) for s in COORDS for e in COORDS if s <= e]


def conservation_problems(snap, out, n):
    bad = []
    if any(len(o) != 9 for o in out):
        return [('cluster-row-shape', str(out))]
    if sum(o[8] for o in out) != n:
        bad.append(('count-sum', 'sum of Count %s != %d calls; out=%s' % (sum(o[8] for o in out), n, out)))
    ids = [i for o in out for i in str(o[4]).split(',')]
    if sorted(ids) != sorted(str(x[4]) for x in snap):
        bad.append(('query-ids-not-conserved', 'ids %s; out=%s' % (ids, out)))
    for o in out:
        members = [x for x in snap if str(x[4]) in str(o[4]).split(',')]
        if o[8] != len(members):
            bad.append(('count-differs-from-members', str(o)))
        if any(m[0] != o[0] or m[1] != o[1] for m in members):
            bad.append(('cluster-mixes-type-or-chromosome', str(o)))
        if any(m[2] < o[2] or m[3] > o[3] for m in members):
            bad.append(('cluster-interval-does-not-cover-member', str(o)))
    return bad


@core.guarded(lambda lst, *a: dict(kind='cluster', calls=[list(x) for x in lst], blur=B))
def check_cluster(lst, acc):
    n = len(lst)
    inp = [[t, c, s, e, QUERY_IDS[i], 0, 1, 7] for i, (t, c, s, e) in enumerate(lst)]
    snap = copy.deepcopy(inp)
    found = []
    case = dict(kind='cluster', calls=[list(x) for x in lst], blur=B)
    sig = {'mixed_types': len({x[0] for x in lst}) > 1}
    try:
        out = cluster_indels(inp, blur=B)
    except Exception as e:
        out = None
        found.append(('cluster-exception', '%s: %s' % (type(e).__name__, e), 'cluster_indels', sig))
    if out is not None:
        found += [(s, 'calls=%s | %s' % (lst, d), 'cluster_indels', sig) for s, d in conservation_problems(snap, out, n)]
    if acc is not None:
        acc.evals += 1
        acc.transitions += max(1, n)
        if out is not None:
            acc.state(tuple((o[0], o[1], o[2], o[3], o[8]) for o in out))
        if any(abs(a[3] - b[3]) <= B for a, b in zip(lst, lst[1:])):
            acc.nontriv(tuple(lst))
        acc.classes['calls=%d' % n] += 1
        if out is not None and len(out) < n:
            acc.classes['merged'] += 1
        for f in found:
            acc.viol(f[0], case, f[1], f[2], f[3])
        acc.sample(case)
    return found


def check_write(ins, dels, acc):
    k = 7500
    mk = lambda lst, base: [[t, c, s * k, e * k, QUERY_IDS[base + i], 0, 1, 7] for i, (t, c, s, e) in enumerate(lst)]  # noqa: E731
    d_ins, d_del = mk(ins, 0), mk(dels, 3)
    path = os.path.join(core.scratch_dir(), 'indels-%d.txt' % os.getpid())
    found = []
    case = dict(kind='write', insertions=[list(x) for x in ins], deletions=[list(x) for x in dels])
    sig = {'mixed_types': False}
    snap = copy.deepcopy(d_ins + d_del)
    try:
        write_indel_file({'insertion': d_ins, 'deletion': d_del}, 'x.xmap', file_name=path)
        rows = [l.rstrip('\n').split('\t') for l in open(path) if not l.startswith('#')]
        out = [[r[0], int(r[1]), int(float(r[2])), int(float(r[3])), r[4], r[5], r[6], float(r[7]), int(r[8])] for r in rows]
    except Exception as e:
        out = None
        found.append(('write-exception', '%s: %s' % (type(e).__name__, e), 'write_indel_file', sig))
    if out is not None:
        found += [(s, 'ins=%s del=%s | %s' % (ins, dels, d), 'write_indel_file', sig)
                  for s, d in conservation_problems(snap, out, len(snap))]
    if acc is not None:
        acc.evals += 1
        acc.transitions += 3
        if out is not None:
            acc.state(('w',) + tuple((o[0], o[1], o[2] // k, o[3] // k, o[8]) for o in out))
        if len(ins) + len(dels) >= 2:
            acc.nontriv(('w', tuple(ins), tuple(dels)))
        for f in found:
            acc.viol(f[0], case, f[1], f[2], f[3])
        acc.sample(case)
    return found


class _Map:
    def __init__(self, positions):
        self.positions = positions


DELTAS = [0] + [s * v for v in (99, 100, 101, 1999, 2000, 2001, 99999, 100000, 100001) for s in (1, -1)]


@core.guarded(lambda which, bp, d1, d2, rev, acc=None, gq=150000: dict(kind='finder', finder=which, breakpoint=bp, ref_delta=[d1, d2], reverse=rev, query_gap=gq))
def check_finder(which, bp, d1, d2, rev, acc, gq=150000):
    rpos = [1000, 1000 + gq + d1, 1000 + 2 * gq + d1 + d2]
    qpos = [500, 500 + gq, 500 + 2 * gq]
    pairs = [(1, 1), (2, 2), (3, 3)] if not rev else [(1, 3), (2, 2), (3, 1)]
    ap = [BP(BPos(r, 0), BPos(q, 0)) for r, q in pairs]
    al = BionanoAlignment(1, 9, 4, 0, 0, 0, 0, rev, 1.0, '', 1, 1, ap)
    adict = {4: [al]}
    found = []
    case = dict(kind='finder', finder=which, breakpoint=bp, ref_delta=[d1, d2], reverse=rev, query_gap=gq)
    try:
        if which == 'molecule':
            res = molecule_indels.look_for_indels_in_breakage(adict, {4: _Map(rpos)}, {9: _Map(qpos)}, {9: [bp, ap[bp]]})
            lo, hi = 2000, 100000
        else:
            res = segment_indels.look_for_indels_in_breakage(adict, {4: _Map(rpos)}, {9: _Map(qpos)}, {9: [[bp, str(ap[bp])]]})
            lo, hi = 100, 100000
    except Exception as e:
        res = None
        found.append(('finder-exception', '%s: %s' % (type(e).__name__, e), which, {}))
    rs, re_ = rpos[pairs[bp][0] - 1], rpos[pairs[bp + 1][0] - 1]
    qs, qe = qpos[pairs[bp][1] - 1], qpos[pairs[bp + 1][1] - 1]
    diff = abs(rs - re_) - abs(qs - qe)
    if res is not None:
        calls = [(k, c) for k, v in res.items() for c in v]
        for k, c in calls:
            if c[0] != k:
                found.append(('call-filed-under-other-type', str(c), which, {}))
            if c[7] != diff:
                found.append(('length-is-not-reference-gap-minus-query-gap', 'call %s expected %s' % (c, diff), which, {}))
            if (c[0] == 'insertion') != (c[7] < 0):
                found.append(('type-sign', str(c), which, {}))
            if [c[2], c[3], c[5], c[6]] != [rs, re_, qs, qe] or c[1] != 4 or c[4] != 9:
                found.append(('call-coordinates', 'call %s expected %s' % (c, [rs, re_, qs, qe]), which, {}))
        # which gap differences are reported at all (the 100 / 2000 / 100000 thresholds) is not part of the statement; only the
        # calls that ARE emitted are judged, and one breakpoint must not yield more than one call
        if len(calls) > 1:
            found.append(('more-than-one-call-for-one-breakpoint', 'diff %s -> %d calls' % (diff, len(calls)), which, {}))
        if acc is not None and calls:
            acc.classes['calls-emitted'] += 1
    if acc is not None:
        acc.evals += 1
        acc.transitions += 1
        acc.state(('f', which, None if res is None else tuple((c[0], c[7]) for v in res.values() for c in v)))
        if any(abs(abs(diff) - t) <= 1 for t in (100, 2000, 100000)):
            acc.nontriv((which, bp, d1, d2, rev, gq))
        for f in found:
            acc.viol(f[0], case, f[1], f[2], f[3])
        acc.sample(case)
    return found


D2 = [0, 101, -101, 2001, -2001, 100001, -100001]


def _describe_multi(which, specs, acc=None, gq=150000):
    return dict(kind='finder-sequence', finder=which, alignments=[list(x) for x in specs], query_gap=gq)


@core.guarded(_describe_multi)
def check_finder_multi(which, specs, acc, gq=150000):
    """several alignments in one call, several join points in one molecule (segment finder): every emitted call must be the
    self-consistent call of exactly one (molecule, join point); specs: (query id, reference id, reverse, d1, d2, [breakpoints])"""
    adict, rdict, qdict, bdict, expected = {}, {}, {}, {}, {}
    found = []
    case = _describe_multi(which, specs, None, gq)
    for qid, rid, rev, d1, d2, bps in specs:
        rpos = [1000 * rid, 1000 * rid + gq + d1, 1000 * rid + 2 * gq + d1 + d2]
        qpos = [50 * qid, 50 * qid + gq, 50 * qid + 2 * gq]
        pairs = [(1, 1), (2, 2), (3, 3)] if not rev else [(1, 3), (2, 2), (3, 1)]
        ap = [BP(BPos(r, 0), BPos(q, 0)) for r, q in pairs]
        al = BionanoAlignment(1, qid, rid, 0, 0, 0, 0, rev, 1.0, '', 1, 1, ap)
        adict.setdefault(rid, []).append(al)
        rdict[rid] = _Map(rpos)        # one alignment per reference id in every spec list
        qdict[qid] = _Map(qpos)
        bdict[qid] = [bps[0], ap[bps[0]]] if which == 'molecule' else [[bp, str(ap[bp])] for bp in bps]
        for bp in bps:
            rs, re_ = rpos[pairs[bp][0] - 1], rpos[pairs[bp + 1][0] - 1]
            qs, qe = qpos[pairs[bp][1] - 1], qpos[pairs[bp + 1][1] - 1]
            expected[(qid, rs, re_)] = (rid, qs, qe, abs(rs - re_) - abs(qs - qe))
    try:
        mod = molecule_indels if which == 'molecule' else segment_indels
        res = mod.look_for_indels_in_breakage(adict, rdict, qdict, bdict)
    except Exception as e:
        res = None
        found.append(('finder-exception', '%s: %s' % (type(e).__name__, e), which, {'alignments': len(specs)}))
    ncalls = 0
    if res is not None:
        seen = set()
        for k, v in res.items():
            for c in v:
                ncalls += 1
                key = (c[4], c[2], c[3])
                if key not in expected:
                    found.append(('call-for-no-join-point', str(c), which, {'alignments': len(specs)}))
                    continue
                rid, qs, qe, diff = expected[key]
                if key in seen:
                    found.append(('more-than-one-call-for-one-breakpoint', str(c), which, {'alignments': len(specs)}))
                seen.add(key)
                if c[0] != k:
                    found.append(('call-filed-under-other-type', str(c), which, {'alignments': len(specs)}))
                if c[7] != diff:
                    found.append(('length-is-not-reference-gap-minus-query-gap', 'call %s expected %s' % (c, diff), which, {'alignments': len(specs)}))
                if (c[0] == 'insertion') != (c[7] < 0):
                    found.append(('type-sign', str(c), which, {'alignments': len(specs)}))
                if [c[1], c[5], c[6]] != [rid, qs, qe]:
                    found.append(('call-coordinates', 'call %s expected %s' % (c, [rid, qs, qe]), which, {'alignments': len(specs)}))
    if acc is not None:
        acc.evals += 1
        acc.transitions += sum(len(x[5]) for x in specs)
        acc.state(('fm', which, None if res is None else tuple(sorted((c[0], c[4], c[7]) for v in res.values() for c in v))))
        if ncalls >= 2:
            acc.nontriv((which, tuple(tuple(map(str, x)) for x in specs)))
            acc.classes['several-calls-in-one-run'] += 1
        for f in found:
            acc.viol(f[0], case, f[1], f[2], f[3])
        acc.sample(case)
    return found


def sorted_lists(n):
    """all lists of n calls that are already sorted by (chromosome, refStop) - the order the writer produces"""
    for combo in itertools.product(range(len(CALLS)), repeat=n):
        lst = [CALLS[i] for i in combo]
        ks = [(x[1], x[3]) for x in lst]
        if all(a <= b for a, b in zip(ks, ks[1:])) and (n < 2 or all(ks[i] < ks[i + 1] or combo[i] <= combo[i + 1] for i in range(n - 1))):
            yield lst


class Clusters(core.Layer):
    def __init__(self, name, nmax, optional=False):
        self.name, self.optional, self.nmax = name, optional, nmax
        self.bounds = dict(calls_per_list=[0, nmax], call_alphabet=len(CALLS), blur=B, lattice=COORDS)
        self.rule = 'all sorted lists of <= %d calls over an alphabet of %d calls' % (nmax, len(CALLS))

    def nblocks(self):
        return len(CALLS) + 2

    def run_block(self, b, acc):
        if b == len(CALLS):
            acc.seq += 1
            check_cluster([], acc)
            for which in ('molecule', 'segment'):
                for bp in (0, 1):
                    for gq in (150000, 10000):      # large and small query gaps (a sign error must stay inside the reporting window)
                        for d1 in DELTAS:
                            for d2 in DELTAS:
                                if min(d1, d2) <= -gq:
                                    continue
                                for rev in (False, True):
                                    acc.seq += 1
                                    check_finder(which, bp, d1, d2, rev, acc, gq)
            for which in ('molecule', 'segment'):
                bsets = [[0], [1]] if which == 'molecule' else [[0, 1], [1, 0], [0], [1]]
                for bps in bsets:
                    for d1 in D2:
                        for d2 in D2:
                            for rev in (False, True):
                                acc.seq += 1
                                check_finder_multi(which, [(9, 4, rev, d1, d2, bps)], acc)
                                for d3 in D2[1:5]:
                                    for rev2 in (False, True):
                                        acc.seq += 1
                                        check_finder_multi(which, [(9, 4, rev, d1, d2, bps), (12, 5, rev2, d3, 0, [0])], acc)
            return
        if b == len(CALLS) + 1:
            single = [c for c in CALLS if c[0] == 'insertion'][::3]
            singled = [c for c in CALLS if c[0] == 'deletion'][::3]
            for ni in range(0, 3):
                for nd in range(0, 3):
                    for ins in itertools.combinations(single, ni):
                        for dels in itertools.combinations(singled, nd):
                            acc.seq += 1
                            check_write(list(ins), list(dels), acc)
            return
        first = CALLS[b]
        for n in range(1, self.nmax + 1):
            for rest in (sorted_lists(n - 1) if n > 1 else [[]]):
                lst = [first] + rest
                ks = [(x[1], x[3]) for x in lst[:2]]
                if len(lst) > 1 and not (ks[0] < ks[1] or (ks[0] == ks[1] and CALLS.index(lst[0]) <= CALLS.index(lst[1]))):
                    continue
                acc.seq += 1
                check_cluster(lst, acc)

    def replay(self, case):
        if case['kind'] == 'cluster':
            return check_cluster([tuple(x) for x in case['calls']], None)
        if case['kind'] == 'write':
            return check_write([tuple(x) for x in case['insertions']], [tuple(x) for x in case['deletions']], None)
        if case['kind'] == 'finder-sequence':
            return check_finder_multi(case['finder'], [tuple(x) for x in case['alignments']], None, case.get('query_gap', 150000))
        return check_finder(case['finder'], case['breakpoint'], case['ref_delta'][0], case['ref_delta'][1], case['reverse'], None, case.get('query_gap', 150000))


def layers(tier, seed):
    if tier == 'quick':
        return [Clusters('n<=3', 3)]
    return [Clusters('n<=3', 3), Clusters('n=4', 4, optional=True)]
