"""C17 - CMAP reading returns every labelled molecule exactly; trimming keeps geometry.

S1 on CmapReader.readQueries/readReferences with files the harness writes (mc/cmaptext.py): molecule sets x ALL permutations of
the data rows x all id filters; OpticalMap.trim on every label list over a lattice.
"""
import io
import itertools

from mc import core, cmaptext
from mc.coma import OpticalMap

core.setup_repo_path()
from src.parsers.cmap_reader import CmapReader  # noqa: E402

RULE = ("molecule sets over ids {1,2,3,7,10} with 0-3 labels each (coincident labels, one-decimal coordinates, decimal end marker, "
        "extra column) x every permutation of the data rows (row bound) x every id filter (all subsets of present ids plus an absent id, "
        "and no filter) x both reader entry points; two-call sequences on ONE reader over two named files on disk (same or different file, "
        "every pair of id filters, both entry-point orders); trim: every label list (<=5 labels) over a lattice with one-decimal offsets; "
        "non-trivial = rows not in canonical order, or a filter is given, or a molecule has no label")
ASSUMPTIONS = ["four file layouts: plain, annotation column with blanks + two channels, instrument-style header with a TAB after #h and no final newline, no #f line", "independent expectation computed from the molecule description, not by parsing with COMA code"]

WORLDS = [
    [(3, 100.7, [10.5, 20.1]), (1, 50.0, [])],
    [(1, 50.0, [])],
    [(7, 90.9, [5.0]), (2, 80.2, [1.1, 1.1, 70.3])],
    [(10, 10.0, []), (2, 80.2, [70.3, 1.1]), (7, 33.3, [5.0])],
    [(2, 500.5, [100.0, 200.2, 300.3]), (1, 20.9, [7.7])],
    [(3, 77.0, [1.0, 2.0]), (10, 88.8, [3.0, 4.0])],
    [(7, 60.0, [10.0, 20.0, 30.0])],
    [(2, 90.5, [(10.0, 1), (20.5, 2), (30.0, 2)]), (3, 50.0, [(5.5, 2)])],
    # labels only at coordinate 0 (an already-trimmed one-label molecule; coincident labels at 0); a label exactly at ContigLength
    [(4, 30.0, [0.0]), (6, 40.0, [0.0, 0.0]), (9, 25.0, [])],
    [(5, 70.0, [0.0, 70.0]), (8, 60.4, [60.0])],
    # a label exactly on a fractional ContigLength (and a molecule whose only label is there)
    [(21, 7500.6, [0.0, 2000.3, 7500.6]), (22, 640.9, [640.9])],
    # two colours interleaved along the molecule
    [(2, 90.5, [(10.0, 2), (20.5, 1), (30.0, 2), (40.0, 1)]), (3, 50.0, [(5.5, 2), (7.0, 1)])],
    # molecule ids that do not survive a round trip through a double
    [(9007199254740993, 50.0, [10.0, 20.5]), (9007199254740992, 40.0, [5.0]), (4611686018427387905, 30.0, [1.5])],
]


NOTE_HEADER = ("# CMAP File Version:\t0.1\n# Label Channels:\t2\n"
               "#h CMapId\tContigLength\tNumSites\tSiteID\tNote\tLabelChannel\tPosition\tStdDev\tCoverage\tOccurrence\n"
               "#f int\tfloat\tint\tint\tstring\tint\tfloat\tfloat\tfloat\tfloat\n")


LONG_HEADER = ("# CMAP File Version:\t0.2\n# Label Channels:\t1\n# Nickase Recognition Site 1:\tCTTAAG;green_01\n# Number of Consensus Maps:\t3\n"
               "# Values corresponding to intervals (StdDev, HapDelta) refer to the interval between current site and next site\n"
               "#h\tCMapId\tContigLength\tNumSites\tSiteID\tLabelChannel\tPosition\tStdDev\tCoverage\tOccurrence\tChimQuality\n"
               "#f\tint\tfloat\tint\tint\tint\tfloat\tfloat\tfloat\tfloat\tfloat\n")


def split(label):
    """a label is a coordinate (channel 1) or a (coordinate, channel) pair"""
    return (label[0], label[1]) if isinstance(label, (tuple, list)) else (label, 1)


def note_rows(mols):
    """layout 2: an annotation column BEFORE LabelChannel/Position whose cell is empty in every second row, labels on two channels"""
    out = []
    k = 0
    for mid, length, pos in mols:
        n = len(pos)
        for i, lab in enumerate(pos):
            p, ch = split(lab)
            out.append("%d\t%.1f\t%d\t%d\t%s\t%d\t%.1f\t12.5\t1.0\t1.0\n" % (mid, length, n, i + 1, 'x' if k % 2 else '', ch, p))
            k += 1
        out.append("%d\t%.1f\t%d\t%d\t%s\t0\t%.1f\t0.0\t1.0\t1.0\n" % (mid, length, n, n + 1, 'end' if k % 2 else '', length))
        k += 1
    return out


def check_read(mols, order, ids, entry, acc, layout=1):
    orig = [[m, l, [list(x) if isinstance(x, (tuple, list)) else x for x in p]] for m, l, p in mols]
    plain = [(m, l, [split(x)[0] for x in p]) for m, l, p in mols]
    if layout == 1:
        rows = cmaptext.rows(plain, extra_column=True)
        txt = (cmaptext.HEADER % ('\tExtra', '\tfloat')) + ''.join(rows[i] for i in order)
    elif layout == 4:
        # layout 4: the '#f' line (column types) is missing; '#h' is directly followed by the first data row
        rows = cmaptext.rows(plain, extra_column=True)
        head = (cmaptext.HEADER % ('\tExtra', '\tfloat'))
        txt = ''.join(l + '\n' for l in head.splitlines() if not l.startswith('#f')) + ''.join(rows[i] for i in order)
    elif layout == 3:
        # layout 3: the header of an instrument-written file (five comment lines, '#h' followed by a TAB, one more column) and no
        # newline after the last row
        rows = cmaptext.rows(plain, extra_column=True)
        txt = (LONG_HEADER + ''.join(rows[i] for i in order)).rstrip('\n')
    else:
        rows = note_rows(mols)
        txt = NOTE_HEADER + ''.join(rows[i] for i in order)
    mols = plain
    found = []
    case = dict(kind='read', molecules=orig, row_order=list(order), ids=ids, entry=entry, layout=layout)
    try:
        rd = CmapReader()
        got = (rd.readQueries if entry == 'queries' else rd.readReferences)(io.StringIO(txt), ids)
        g = [(int(o.moleculeId), o.length, list(o.positions)) for o in got]
    except Exception as e:
        g = None
        found.append(('reader-exception', '%s: %s' % (type(e).__name__, e), 'reader', {}))
    if g is not None:
        exp = sorted((m, int(l), sorted(p)) for m, l, p in mols if p and (not ids or m in ids))
        if sorted(g) != exp:        # the order of the returned list is not part of the statement
            found.append(('maps-differ', 'got %s expected %s' % (g, exp), 'reader', {}))
    if acc is not None:
        acc.evals += 1
        acc.transitions += 1
        acc.state(tuple(tuple(map(str, x)) for x in (g or [])))
        if list(order) != sorted(order) or ids or any(not m[2] for m in mols):
            acc.nontriv((tuple(m[0] for m in mols), tuple(order), tuple(ids or ()), entry, layout))
        for f in found:
            acc.viol(f[0], case, f[1], f[2], f[3])
        acc.sample(case)
    return found


@core.guarded(lambda pos, length, *a: dict(kind='trim', positions=list(pos), length=length))
def check_trim(pos, length, acc):
    found = []
    case = dict(kind='trim', positions=list(pos), length=length)
    m = OpticalMap(5, length, list(pos))
    t = m.trim()
    if pos:
        gaps = [round(b - a, 6) for a, b in zip(pos, pos[1:])]
        tg = [round(b - a, 6) for a, b in zip(t.positions, t.positions[1:])]
        if t.positions[0] != 0 or len(t.positions) != len(pos) or tg != gaps:
            found.append(('trim-geometry', '%s -> %s' % (pos, t.positions), 'trim', {}))
        if abs(t.length - (pos[-1] - pos[0] + 1)) > 1e-9:
            found.append(('trim-length', '%s -> %s' % (pos, t.length), 'trim', {}))
        if t.moleculeId != 5 or t.shift != 0:
            found.append(('trim-identity', '', 'trim', {}))
    t2 = t.trim()
    if (t2.positions, t2.length, t2.moleculeId) != (t.positions, t.length, t.moleculeId):
        found.append(('trim-not-idempotent', '%s -> %s -> %s' % (pos, t.positions, t2.positions), 'trim', {}))
    if list(m.positions) != list(pos):
        found.append(('trim-mutates-input', '', 'trim', {}))
    if acc is not None:
        acc.evals += 1
        acc.transitions += 2
        acc.state(('t', tuple(t.positions), t.length))
        if pos and pos[0] != 0:
            acc.nontriv(('t', tuple(pos)))
        for f in found:
            acc.viol(f[0], case, f[1], f[2], f[3])
        acc.sample(case)
    return found


def _expected(mols, ids):
    return sorted((m, int(l), sorted(split(x)[0] for x in p)) for m, l, p in mols if p and (not ids or m in ids))


@core.guarded(lambda wa, wb, calls, *a: dict(kind='reuse', worlds=[wa, wb], calls=[list(c) for c in calls]))
def check_reuse(wa, wb, calls, acc):
    """operation sequence on ONE CmapReader over two NAMED files on disk (what Program does: references, then queries; the two
    may be the same file with different id filters); calls: (file 0/1, entry, ids)"""
    import os
    d = core.scratch_dir()
    paths = [os.path.join(d, 'reuse-a.cmap'), os.path.join(d, 'reuse-b.cmap')]
    molsets = [WORLDS[wa], WORLDS[wb]]
    for fi, (p, mols) in enumerate(zip(paths, molsets)):
        plain = [(m, l, [split(x)[0] for x in pp]) for m, l, pp in mols]
        with open(p, 'w') as f:
            # the two files have DIFFERENT column layouts (the second has the annotation column in front of LabelChannel / Position)
            f.write(cmaptext.text(plain) if fi == 0 else NOTE_HEADER + ''.join(note_rows(plain)))
    found = []
    case = dict(kind='reuse', worlds=[wa, wb], calls=[list(c) for c in calls])
    rd = CmapReader()
    outs = []
    for k, (fi, entry, ids) in enumerate(calls):
        try:
            with open(paths[fi]) as f:
                got = (rd.readQueries if entry == 'queries' else rd.readReferences)(f, ids)
            g = sorted((int(o.moleculeId), o.length, list(o.positions)) for o in got)
        except Exception as e:
            found.append(('reader-exception', 'call %d: %s: %s' % (k + 1, type(e).__name__, e), 'reader', {'call': min(k + 1, 2)}))
            outs.append(None)
            continue
        outs.append(tuple((m, l, tuple(p)) for m, l, p in g))
        exp = _expected(molsets[fi], ids)
        if g != exp:
            found.append(('maps-differ', 'call %d (file %d, %s, ids %s) after %s: got %s expected %s' % (
                k + 1, fi, entry, ids, [list(c) for c in calls[:k]], g, exp), 'reader', {'call': min(k + 1, 2)}))
    if acc is not None:
        acc.evals += 1
        acc.transitions += len(calls)
        acc.state(('r', tuple(outs)))
        if len(calls) > 1 and calls[0][0] == calls[1][0] and calls[0][2] != calls[1][2]:
            acc.nontriv(('r', wa, wb, tuple(map(str, calls))))
            acc.classes['same-file-read-twice-with-different-filters'] += 1
        for f in found:
            acc.viol(f[0], case, f[1], f[2], f[3])
        acc.sample(case)
    return found


class Reuse(core.Layer):
    def __init__(self, name, optional=False):
        self.name, self.optional = name, optional
        self.items = [(i, (i + 1) % len(WORLDS)) for i in range(len(WORLDS)) if i != 7]
        self.bounds = dict(file_pairs=len(self.items), calls_per_reader=2, files=2, id_filters='all subsets + absent id + none', entries=['references', 'queries'])
        self.rule = '%d file pairs x every ordered pair of calls (file, id filter) with entry points references-then-queries and queries-then-references, on one reader' % len(self.items)

    def nblocks(self):
        return len(self.items)

    def run_block(self, b, acc):
        wa, wb = self.items[b]
        opts = [(fi, ids) for fi, w in ((0, wa), (1, wb)) for ids in id_filters(WORLDS[w])]
        for f1, i1 in opts:
            for f2, i2 in opts:
                for e1, e2 in (('references', 'queries'), ('queries', 'references')):
                    acc.seq += 1
                    check_reuse(wa, wb, ((f1, e1, i1), (f2, e2, i2)), acc)

    def replay(self, case):
        return check_reuse(case['worlds'][0], case['worlds'][1], [tuple(c) for c in case['calls']], None)


def id_filters(mols):
    present = sorted(m[0] for m in mols)
    out = [None]
    for k in range(1, len(present) + 1):
        for c in itertools.combinations(present, k):
            out.append(list(c))
    out.append([99])
    out.append(present[:1] + [99])
    return out


class Reader(core.Layer):
    def __init__(self, name, maxrows, optional=False):
        self.name, self.optional, self.maxrows = name, optional, maxrows
        self.items = []
        for wi, mols in enumerate(WORLDS):
            n = sum(len(p) + 1 for m, l, p in mols)
            if n <= maxrows:
                perms = list(itertools.permutations(range(n)))
            else:
                base = list(range(n))
                perms = [tuple(base), tuple(base[::-1])] + [tuple(base[:i] + [base[i + 1], base[i]] + base[i + 2:]) for i in range(n - 1)]
            for chunk in range(0, len(perms), 40):
                self.items.append((wi, perms[chunk:chunk + 40]))
        self.items.append(('trim', None))
        self.bounds = dict(molecule_sets=len(WORLDS), all_row_permutations_up_to_rows=maxrows, id_filters='all subsets + absent id + none',
                           entries=['queries', 'references'])
        self.rule = 'all row permutations (<= %d rows; larger files: reversal and adjacent transpositions) x all id filters x 2 entry points' % maxrows

    def nblocks(self):
        return len(self.items)

    def run_block(self, b, acc):
        wi, perms = self.items[b]
        if wi == 'trim':
            lat = [0.0, 3.5, 10.0, 10.0, 25.1, 40.0]
            for n in range(0, 6):
                for c in itertools.combinations_with_replacement(lat, n):
                    for off in (0.0, 7.7):
                        acc.seq += 1
                        check_trim([round(x + off, 1) for x in c], 99, acc)
            return
        mols = WORLDS[wi]
        for oi, order in enumerate(perms):
            for ids in id_filters(mols):
                for entry in ('queries', 'references'):
                    for layout in (1, 2 + oi % 3):       # layout 1 for every row order, layouts 2, 3 and 4 take turns
                        acc.seq += 1
                        check_read(mols, order, ids, entry, acc, layout)

    def replay(self, case):
        if case['kind'] == 'trim':
            return check_trim(case['positions'], case['length'], None)
        if case['kind'] == 'reuse':
            return Reuse('x').replay(case)
        return check_read([tuple(m) for m in case['molecules']], case['row_order'], case['ids'], case['entry'], None, case.get('layout', 1))


def layers(tier, seed):
    if tier == 'quick':
        return [Reader('rows<=6', 6), Reuse('seq2:one-reader')]
    return [Reader('rows<=6', 6), Reuse('seq2:one-reader'), Reader('rows<=7', 7)]
