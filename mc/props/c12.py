"""C12 - pairing along a seed diagonal partitions labels and pairs nearest neighbours.

S1 on AlignerEngine.align(reference, query, start, end, isReverse): every label multiset on a unit lattice
(ties, coincident labels and labels exactly at maxDistance are the norm), every seed offset, both strands,
fragments with label-number offsets.
"""
import itertools

from mc import core
from mc.coma import AlignerEngine, AlignedPair, NotAlignedQueryPosition, NotAlignedReferencePosition, OpticalMap

RULE = ("all reference multisets x all non-empty query multisets on a unit lattice x length slack x shift x seed start x strand x "
        "maxDistance; non-trivial = the case contains coincident labels, a candidate pair exactly at maxDistance, two candidates "
        "at equal distance (tie) or an empty search window; distinct by full input")
ASSUMPTIONS = ["integer coordinates on a unit lattice; end = start + query.length as Aligner.getSegments passes it"]


def multisets(vals, kmin, kmax):
    for k in range(kmin, kmax + 1):
        for c in itertools.combinations_with_replacement(vals, k):
            yield list(c)


@core.guarded(lambda maxd, rpos, qpos, slack, shift, start, rev, acc=None, engine=None, history=None: dict(maxDistance=maxd, reference=rpos, query=qpos, slack=slack, shift=shift, start=start, reverse=rev, history=history))
def check_case(maxd, rpos, qpos, slack, shift, start, rev, acc, engine=None, history=None):
    eng = engine or AlignerEngine(maxd)
    if history:
        # operation sequence: earlier calls on the SAME engine (same molecule id!) must not influence this one
        for hq, hslack, hshift, hrev in history:
            eng.align(OpticalMap(1, (rpos[-1] if rpos else 0) + 2, rpos), OpticalMap(2, hq[-1] + 1 + hslack, hq, shift=hshift), start,
                      start + hq[-1] + 1 + hslack, hrev)
    q = OpticalMap(2, qpos[-1] + 1 + slack, qpos, shift=shift)
    ref = OpticalMap(1, (rpos[-1] if rpos else 0) + 2, rpos)
    end = start + q.length
    out = eng.align(ref, q, start, end, rev)
    # ---- oracle: from raw coordinates only -------------------------------------------------
    n = len(qpos)
    if rev:
        qlab = [(n + shift - i, q.length - 1 - p) for i, p in enumerate(reversed(qpos))]
    else:
        qlab = [(1 + shift + i, p) for i, p in enumerate(qpos)]
    rall = [(i + 1, p) for i, p in enumerate(rpos)]
    rlab = [(i, p) for i, p in rall if start - maxd <= p <= end + maxd]
    qd = dict(qlab)
    rd = dict(rall)
    found = []

    def bad(sym, detail=''):
        found.append((sym, '%s out=%r' % (detail, out), 'engine', {}))

    pairs = [p for p in out if isinstance(p, AlignedPair)]
    ur = [p.reference.siteId for p in out if isinstance(p, NotAlignedReferencePosition)]
    uq = [p.query.siteId for p in out if isinstance(p, NotAlignedQueryPosition)]
    if len(pairs) + len(ur) + len(uq) != len(out):
        bad('unknown-position-kind')
    if sorted([p.reference.siteId for p in pairs] + ur) != sorted(i for i, _ in rlab):
        bad('reference-partition')
    if sorted([p.query.siteId for p in pairs] + uq) != sorted(i for i, _ in qlab):
        bad('query-partition')
    ap = [p.absolutePosition for p in out]
    if ap != sorted(ap):
        bad('ascending-order')
    exact = tie = False
    ok_ids = True
    for p in pairs:
        if p.reference.siteId not in rd or p.query.siteId not in qd:
            ok_ids = False
            bad('label-does-not-exist')
            continue
        if p.reference.position != rd[p.reference.siteId] or p.query.position != qd[p.query.siteId]:
            bad('pair-coordinates')
        off = qd[p.query.siteId] - (rd[p.reference.siteId] - start)
        if off != p.queryShift:
            bad('offset-value', 'expected %s got %s' % (off, p.queryShift))
        if abs(off) > maxd:
            bad('beyond-maxDistance')
    if ok_ids:
        for a, b in itertools.combinations(pairs, 2):
            if a.reference.siteId == b.reference.siteId or a.query.siteId == b.query.siteId:
                bad('not-one-to-one')
                continue
            if rd[a.reference.siteId] > rd[b.reference.siteId]:
                a, b = b, a
            if rd[a.reference.siteId] < rd[b.reference.siteId] and qd[a.query.siteId] > qd[b.query.siteId]:
                bad('crossing-coordinates')
            ra, rb, qa, qb = a.reference.siteId, b.reference.siteId, a.query.siteId, b.query.siteId
            if (ra < rb) != ((qa > qb) if rev else (qa < qb)):
                bad('crossing-label-numbers')
    pairset = {(p.reference.siteId, p.query.siteId) for p in pairs}
    for ri, rp in rlab:
        for qi, qp in qlab:
            dd = abs(qp - (rp - start))
            if dd > maxd:
                continue
            if dd == maxd:
                exact = True
            nq = [abs(q2 - (rp - start)) for i2, q2 in qlab if i2 != qi]
            nr = [abs(qp - (r2 - start)) for i2, r2 in rall if i2 != ri]
            if any(x == dd for x in nq) or any(x == dd for x in nr):
                tie = True
            if all(x > dd for x in nq) and all(x > dd for x in nr) and (ri, qi) not in pairset:
                bad('mutual-nearest-unpaired', 'r=%s q=%s' % (ri, qi))
    if acc is not None:
        acc.evals += 1
        acc.transitions += 1 + len(out)
        acc.state((maxd, rev, tuple(('P', p.reference.siteId, p.query.siteId - shift, p.queryShift) for p in pairs),
                   tuple(ur), tuple(x - shift for x in uq)))
        coincident = len(set(rpos)) < len(rpos) or len(set(qpos)) < len(qpos)
        if coincident or exact or tie or not rlab:
            acc.nontriv((maxd, tuple(rpos), tuple(qpos), slack, shift, start, rev, str(history)))
        acc.classes['pairs=%d' % min(len(pairs), 4)] += 1
        if coincident:
            acc.classes['coincident-labels'] += 1
        if exact:
            acc.classes['candidate-exactly-at-maxDistance'] += 1
        if tie:
            acc.classes['equidistant-tie'] += 1
        if not rlab:
            acc.classes['empty-window'] += 1
        case = dict(maxDistance=maxd, reference=rpos, query=qpos, slack=slack, shift=shift, start=start, reverse=rev, history=history)
        for f in found:
            acc.viol(f[0], case, f[1], f[2], f[3])
        acc.sample(case)
    return found


class Lattice(core.Layer):
    def __init__(self, name, rvals, rmax, qvals, qmax, starts, maxds, optional=False):
        self.name = name
        self.refs = list(multisets(rvals, 0, rmax))
        self.queries = list(multisets(qvals, 1, qmax))
        self.starts = starts
        self.maxds = maxds
        self.optional = optional
        self.chunk = max(1, len(self.refs) // 48)
        self.rchunks = [self.refs[i:i + self.chunk] for i in range(0, len(self.refs), self.chunk)]
        self.bounds = dict(reference_values=[rvals[0], rvals[-1]], reference_max_labels=rmax, query_values=[qvals[0], qvals[-1]],
                           query_max_labels=qmax, length_slack=[0, 2], shift=[0, 2], starts=list(starts), maxDistance=list(maxds),
                           strands=['+', '-'])
        self.rule = '%d reference multisets x %d query multisets x 2 slacks x 2 shifts x %d starts x 2 strands x %d maxDistance' % (
            len(self.refs), len(self.queries), len(starts), len(maxds))

    def nblocks(self):
        return len(self.maxds) * len(self.rchunks)

    def run_block(self, b, acc):
        maxd = self.maxds[b // len(self.rchunks)]
        eng = AlignerEngine(maxd)
        for rpos in self.rchunks[b % len(self.rchunks)]:
            for qpos in self.queries:
                for slack in (0, 2):
                    for shift in (0, 2):
                        for start in self.starts:
                            for rev in (False, True):
                                acc.seq += 1
                                check_case(maxd, rpos, qpos, slack, shift, start, rev, acc)

    def replay(self, case):
        return check_case(case['maxDistance'], case['reference'], case['query'], case['slack'], case['shift'], case['start'],
                          case['reverse'], None, None, [tuple(h) for h in case['history']] if case.get('history') else None)


class Sequences(Lattice):
    """two consecutive calls on one engine: (query A) then (query B, same molecule id) - the second result is judged"""

    def __init__(self, name, rvals, rmax, qvals, qmax, starts, maxds, optional=False):
        Lattice.__init__(self, name, rvals, rmax, qvals, qmax, starts, maxds, optional)
        self.rule = 'every ordered pair of %d queries x shifts x strands as a two-call sequence on one engine, %d reference multisets x %d starts x %d maxDistance' % (
            len(self.queries), len(self.refs), len(starts), len(maxds))
        self.bounds = dict(self.bounds, sequence_length=2)

    def run_block(self, b, acc):
        maxd = self.maxds[b // len(self.rchunks)]
        for rpos in self.rchunks[b % len(self.rchunks)]:
            for qa in self.queries:
                for qb in self.queries:
                    if qa == qb:
                        continue
                    for sha, shb in ((0, 0), (2, 2), (0, 2)):
                        for reva, revb in ((False, False), (True, True), (False, True)):
                            for start in self.starts:
                                acc.seq += 1
                                check_case(maxd, rpos, qb, 0, shb, start, revb, acc, None, [(qa, 0, sha, reva)])


class Fractional(Lattice):
    """half-integer query coordinates: labels exactly half a unit beyond maxDistance must stay unpaired (window tests and offsets
    must be computed on the real coordinates, not on truncated ones)"""

    def __init__(self, name, optional=False):
        Lattice.__init__(self, name, list(range(0, 5)), 3, [x / 2.0 for x in range(0, 9)], 2, (0, 1), (1, 2), optional)
        self.rule = 'half-integer query coordinates: ' + self.rule


def layers(tier, seed):
    quick = Lattice('R<=4,Q<=3', list(range(0, 7)), 4, list(range(0, 5)), 3, (-1, 0, 1, 3), (0, 1, 2))
    seq = Sequences('seq2:R<=2,Q<=2', list(range(0, 5)), 2, list(range(0, 5)), 2, (0, 1), (0, 1, 2))
    if tier == 'quick':
        return [quick, seq, Fractional('fractional:R<=3,Q<=2')]
    return [quick, seq, Fractional('fractional:R<=3,Q<=2'), Sequences('seq2:R<=3,Q<=3', list(range(0, 5)), 3, list(range(0, 5)), 3, (-1, 0, 1), (1, 2)),
            Lattice('R<=5,Q<=4', list(range(0, 8)), 5, list(range(0, 6)), 4, (-2, -1, 0, 1, 2, 3, 4), (0, 1, 2, 3), optional=True)]
