"""C03 - HitEnum is a faithful run-length encoding of the aligned pairs.

Layer A (S1): AlignmentResultRow.cigarString over every valid matching on an R x Q label grid, both strands, every split of the
pair list into 1..3 consecutive segments, with and without interleaved unpaired positions.  Layer B (S2): every record of
every file of the standard worlds.
"""
import itertools

from mc import core, e2e
from mc.coma import (AlignmentResultRow, AlignmentSegment, EmptyAlignmentSegment, ScoredAlignedPair, AlignedPair, ScoredNotAlignedPosition,
                     NotAlignedReferencePosition, PositionWithSiteId as P, Peak)
from mc.oracles import hitenum_problems

RULE = ("A: every valid matching (k>=1 pairs; ascending k-subset of reference labels x k-subset of query labels, ascending for '+', "
        "descending for '-') on an R x Q grid x every split into 1..3 consecutive segments x unpaired positions interleaved or not; "
        "non-trivial = the matching skips at least one label on either map; distinct by (pairs, strand). B: every record of every "
        "file of the standard worlds; non-trivial = HitEnum contains D or I")
ASSUMPTIONS = ["decoder mc/oracles.py:hitenum_decode written from the statement"]
PEAK = Peak(0, 1.)


def splits(k):
    yield [k]
    for a in range(1, k):
        yield [a, k - a]
    for a in range(1, k):
        for b in range(a + 1, k):
            yield [a, b - a, k - b]


@core.guarded(lambda pairs, rev, split, interleave, acc=None, empties=0, coincide=0: dict(pairs=[list(p) for p in pairs], reverse=rev, split=split, interleave=interleave, empties=empties, coincide=coincide))
def check_case(pairs, rev, split, interleave, acc, empties=0, coincide=0):
    # coincide: 1 = query labels 2k-1 and 2k share a coordinate, 2 = reference labels do (distinct labels at one position)
    qc = (lambda q: ((q + 1) // 2) * 100) if coincide == 1 else (lambda q: q * 100)
    rc = (lambda r: ((r + 1) // 2) * 100) if coincide == 2 else (lambda r: r * 100)
    pos = [ScoredAlignedPair(AlignedPair(P(r, rc(r)), P(q, qc(q))), 1.) for r, q in pairs]
    segs = []
    i = 0
    for n in split:
        part = list(pos[i:i + n])
        if interleave:
            part = [x for p in part for x in (p, ScoredNotAlignedPosition(NotAlignedReferencePosition(P(99, p.reference.position + 1)), -1.))][:-1]
        segs.append(AlignmentSegment(part, float(n), PEAK, part))
        i += n
    # empty segments as conflict resolution / the join leave them: 1 = leading, 2 = trailing, 3 = both
    if empties & 1:
        segs.insert(0, EmptyAlignmentSegment(PEAK, []))
    if empties & 2:
        segs.append(EmptyAlignmentSegment(PEAK, []))
    row = AlignmentResultRow(segs, reverseStrand=rev)
    hit = row.cigarString
    found = [(p, 'pairs=%s strand=%s hit=%r' % (pairs, '-' if rev else '+', hit), 'row', {'pairs': min(len(pairs), 2)})
             for p in hitenum_problems(hit, pairs, rev)]
    if acc is not None:
        acc.evals += 1
        acc.transitions += 1
        acc.state((hit,))
        gaps = any(b[0] - a[0] > 1 or abs(b[1] - a[1]) > 1 for a, b in zip(pairs, pairs[1:]))
        if gaps:
            acc.nontriv((tuple(pairs), rev))
        acc.classes['pairs=%s' % ('1' if len(pairs) == 1 else '2+')] += 1
        if gaps:
            acc.classes['with-skipped-labels'] += 1
        case = dict(pairs=[list(p) for p in pairs], reverse=rev, split=split, interleave=interleave, empties=empties, coincide=coincide)
        for f in found:
            acc.viol(f[0], case, f[1], f[2], f[3])
        acc.sample(case)
    return found


class Grid(core.Layer):
    def __init__(self, name, R, Q, optional=False):
        self.name, self.R, self.Q, self.optional = name, R, Q, optional
        self.rsubs = [rs for k in range(1, min(R, Q) + 1) for rs in itertools.combinations(range(1, R + 1), k)]
        self.chunk = max(1, len(self.rsubs) // 64)
        self.bounds = dict(reference_labels=R, query_labels=Q, segments=[1, 3], strands=['+', '-'], interleave_unpaired=[False, True])
        self.rule = 'all valid matchings on a %dx%d grid x strands x splits x interleave' % (R, Q)

    def nblocks(self):
        return (len(self.rsubs) + self.chunk - 1) // self.chunk

    def run_block(self, b, acc):
        for rs in self.rsubs[b * self.chunk:(b + 1) * self.chunk]:
            k = len(rs)
            for qs in itertools.combinations(range(1, self.Q + 1), k):
                for rev in (False, True):
                    pairs = list(zip(rs, qs[::-1] if rev else qs))
                    for sp in splits(k):
                        for inter in (False, True):
                            acc.seq += 1
                            check_case(pairs, rev, sp, inter, acc)
                        if len(sp) <= 2:
                            for em in (1, 2, 3):
                                acc.seq += 1
                                check_case(pairs, rev, sp, False, acc, em)
                        if len(sp) == 1:
                            for co in (1, 2):
                                acc.seq += 1
                                check_case(pairs, rev, sp, False, acc, 0, co)

    def replay(self, case):
        return check_case([tuple(p) for p in case['pairs']], case['reverse'], case['split'], case['interleave'], None, case.get('empties', 0), case.get('coincide', 0))


@core.guarded(lambda ref, q, peaks, rev, acc=None, cfg=0: dict(reference=ref, query=q, peaks=peaks, reverse=rev, config=cfg))
def check_row(ref, q, peaks, rev, acc, cfg=0):
    """HitEnum of rows that the REAL aligner builds (several segments, trimmed by conflict resolution) on indel-ladder worlds"""
    from mc.coma import make_aligner, OpticalMap
    al = make_aligner(4, 100, 1, -25, 100, 120) if not cfg else make_aligner(4, 100, 1, -25, 100, 120, 0.05, 1)      # cfg 1: -ss 1 with a small -sj
    row = al.align(OpticalMap(1, ref[-1] + 10, ref), OpticalMap(2, q[-1] + 1, q), [Peak(p, 10.) for p in peaks], rev)
    pairs = [(p.reference.siteId, p.query.siteId) for p in row.alignedPairs]
    hit = row.cigarString
    found = [(p, 'pairs=%s strand=%s hit=%r' % (pairs, '-' if rev else '+', hit), 'row', {}) for p in hitenum_problems(hit, pairs, rev)] if pairs else []
    if acc is not None:
        acc.evals += 1
        acc.transitions += 2
        acc.state((hit,))
        if sum(1 for s_ in row.segments if not s_.empty) >= 2:
            acc.nontriv((tuple(q), tuple(peaks), rev))
            acc.classes['multi-segment-rows'] += 1
        case = dict(reference=ref, query=q, peaks=peaks, reverse=rev, config=cfg)
        for f in found:
            acc.viol(f[0], case, f[1], f[2], f[3])
        acc.sample(case)
    return found


@core.guarded(lambda n1, k, n2, sc2, *a: dict(kind='cross', first=n1, shared_query=k, second=n2, score=sc2))
def check_cross(n1, k, n2, sc2, acc):
    """two hand-built segments from neighbouring peaks in a CROSS conflict: the second starts with the pair (n1, k), k < n1 - it shares
    reference label n1 with the end of the first and query label k with its middle, so the two conflicting sub-runs hold different numbers
    of labels; through the real chainer / resolver / AlignmentResultRow.create, then the HitEnum of the row against its pairs"""
    from mc.coma import make_aligner, AlignmentSegment, AlignmentResultRow

    def segment(pairs, peak):
        pos = [ScoredAlignedPair(AlignedPair(P(r, 100000 + 1000 * r), P(q, 1000 * q), 1000 * q - (1000 * r + 100000 - peak), 1), sc) for r, q, sc in pairs]
        return AlignmentSegment.create(pos, Peak(peak, 50.), pos)
    first = segment([(i, i, 1000.) for i in range(1, n1 + 1)], 100000)
    second = segment([(n1, k, float(sc2))] + [(n1 + j, n1 + j, 1000.) for j in range(1, n2 + 1)], 100400)
    al = make_aligner(1500, 1000, 1, -250, 1000, 1200)
    resolved = al.segmentConflictResolver.resolveConflicts([first, second])
    row = AlignmentResultRow.create(resolved, 7, 1, 8000, 300000, False)
    pairs = [(p.reference.siteId, p.query.siteId) for p in row.alignedPairs]
    hit = row.cigarString
    found = [(p, 'pairs=%s hit=%r' % (pairs, hit), 'row', {'cross': True}) for p in hitenum_problems(hit, pairs, False)] if pairs else []
    if acc is not None:
        acc.evals += 1
        acc.transitions += 3
        acc.state(('x', hit))
        acc.nontriv(('x', n1, k, n2, sc2))
        case = dict(kind='cross', first=n1, shared_query=k, second=n2, score=sc2)
        for f in found:
            acc.viol(f[0], case, f[1], f[2], f[3])
        acc.sample(case)
    return found


class CrossConflicts(core.Layer):
    name = 'A3:cross-conflicts'
    optional = False

    def __init__(self):
        self.cases = [(n1, k, n2, sc) for n1 in (3, 4, 5, 6) for k in range(1, n1) for n2 in (2, 3, 4) for sc in (400, 1000, 1600)]
        self.bounds = dict(first_segment_pairs=[3, 6], shared_query_label='1..n1-1', second_segment_tail=[2, 4], score_of_the_crossing_pair=[400, 1000, 1600])
        self.rule = '%d hand-built pairs of segments in a cross conflict through the real resolver and row builder' % len(self.cases)

    def nblocks(self):
        return 4

    def run_block(self, b, acc):
        for c in self.cases[b::4]:
            acc.seq += 1
            check_cross(*c, acc)

    def replay(self, case):
        return check_cross(case['first'], case['shared_query'], case['second'], case['score'], None)


class AlignerRows(core.Layer):
    name = 'A2:aligner-rows'

    def __init__(self, full):
        from mc import lattice
        self.cases = list(lattice.ladder_cases(full))
        self.chunk = 60
        self.bounds = dict(worlds='indel-ladder worlds (mc.props.c15.ladder_worlds(full=%s))' % full, peaks_per_list=[1, 3], strands=['+ q', '- mirror(q)', '- q'], join_scorers=[[1, 0], [0.05, 1]])
        self.rule = '%d (world, peak list) cases x 3 strand variants x 2 join scorers: cigarString of the row the real aligner returns' % len(self.cases)

    def nblocks(self):
        return (len(self.cases) + self.chunk - 1) // self.chunk

    def run_block(self, b, acc):
        for name, ref, q, peaks in self.cases[b * self.chunk:(b + 1) * self.chunk]:
            for rev, qq in ((False, q), (True, sorted(q[-1] - p for p in q)), (True, q)):
                for cfg in (0, 1):
                    acc.seq += 1
                    check_row(ref, qq, peaks, rev, acc, cfg)

    def replay(self, case):
        return check_row(case['reference'], case['query'], case['peaks'], case['reverse'], None, case.get('config', 0))


def layers(tier, seed):
    ws = e2e.std_worlds(tier, seed, depth2=False)
    lb = e2e.WorldLayer('B:worlds', ws, e2e.judge_c03, cli_every=0,
                        bounds=dict(worlds=len(ws), modes=list(e2e.MODES)),
                        rule='every record of every file of the standard worlds x 4 modes')
    if tier == 'quick':
        return [Grid('A:7x7', 7, 7), AlignerRows(False), CrossConflicts(), lb]
    return [Grid('A:7x7', 7, 7), AlignerRows(True), CrossConflicts(), Grid('A:9x9', 9, 9), lb, Grid('A:10x10', 10, 10, optional=True)]
