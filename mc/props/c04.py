"""C04 - Confidence is exactly the configured score of what is reported.

Layer A (S1): Aligner.align on a jittered lattice (query labels off the lattice by -3/0/+2 so |offset| takes several values)
x a grid of (sp, dp, su, maxDistance, ms, bs) tuples.  Layer B (S2): Program.run on standard worlds x CLI deviations of
-sp -dp -su -d -ms -bs (<= 2 at a time, values different from every default), judging the returned rows and, through the
dispatcher, every candidate row of both passes.
"""
import itertools

from mc import core, lattice, e2e, sink
from mc.coma import make_aligner, OpticalMap, Peak, is_pair, unpaired_ref, unpaired_qry

RULE = ("A: all reference subsets x all jittered query subsets of a step-10 lattice x all lists of 1..3 seed peaks x strands x "
        "parameter tuples; B: standard worlds x CLI parameter deviations (<=2) x modes, every returned row and every candidate row; "
        "non-trivial = row has >= 2 non-empty segments, or a segment carries unpaired positions, or parameters are non-default; "
        "oracle = score recomputed from raw coordinates, the segment's peak position and the parameters the harness passed")
ASSUMPTIONS = ["boundary leniency (DESIGN 4/C04 clause 4): unpaired labels adjacent to a segment's span, each at most once, may be "
               "charged; their number is reported as boundary_unpaired",
               "segments consisting of unpaired positions only are judged on clause 3 (score = su x count) only"]
STEP = 10
# (sp, dp, su, maxd, ms, bs)
TUPLES = [(100, 1, -25, 4, 100, 120), (70, 2, -10, 6, 150, 60), (100, 0.5, 0, 6, 100, 120), (70, 1, -25, 6, 100, 120),
          (100, 2, -10, 4, 150, 60), (70, 0.5, -25, 4, 100, 60), (100, 1, -10, 6, 150, 120), (70, 2, 0, 4, 100, 120),
          (100, 0.5, -25, 6, 150, 60), (70, 1, 0, 6, 150, 60), (100, 2, -25, 6, 100, 60), (70, 0.5, -10, 4, 150, 120)]


def label_table(positions, length, shift, rev):
    n = len(positions)
    if rev:
        return {n + shift - i: length - 1 - p for i, p in enumerate(reversed(positions))}
    return {1 + shift + i: p for i, p in enumerate(positions)}


def segment_problems(seg, rlab, qlab, sp, dp, su, maxd):
    """clauses 1-4 of DESIGN 4/C04 for one non-empty segment; returns (problems, boundary_unpaired)"""
    bad = []
    prs = [p for p in seg.positions if is_pair(p)]
    ur = [p.position.reference.siteId for p in seg.positions if unpaired_ref(p)]
    uq = [p.position.query.siteId for p in seg.positions if unpaired_qry(p)]
    if len(prs) + len(ur) + len(uq) != len(seg.positions):
        bad.append(('unknown-position-kind', ''))
    exp = 0.0
    for p in prs:
        r, q = p.reference.siteId, p.query.siteId
        if r not in rlab or q not in qlab:
            bad.append(('pair-label-does-not-exist', '(%s,%s)' % (r, q)))
            continue
        off = qlab[q] - (rlab[r] - seg.peak.position)
        if abs(off - p.queryShift) > 1e-6:
            bad.append(('offset-differs-from-raw-maps', '(%s,%s) recomputed %s reported %s' % (r, q, off, p.queryShift)))
        if abs(off) > maxd + 1e-6:
            bad.append(('pair-beyond-maxPairDistance', '(%s,%s) offset %s' % (r, q, off)))
        want = sp - dp * abs(off)
        if abs(want - p.score) > 1e-6:
            bad.append(('pair-score', '(%s,%s) expected %s got %s' % (r, q, want, p.score)))
        exp += want
    exp += su * (len(ur) + len(uq))
    for p in seg.positions:
        if not is_pair(p) and abs(p.score - su) > 1e-9:
            bad.append(('unpaired-score', 'expected %s got %s' % (su, p.score)))
    if abs(exp - seg.segmentScore) > 1e-6:
        bad.append(('segment-score', 'recomputed %s reported %s' % (exp, seg.segmentScore)))
    boundary = 0
    if len(set(ur)) != len(ur) or len(set(uq)) != len(uq):
        bad.append(('unpaired-label-counted-twice', 'ref %s qry %s' % (ur, uq)))
    if prs:
        rs = [p.reference.siteId for p in prs]
        qs = [p.query.siteId for p in prs]
        if len(set(rs)) != len(rs) or len(set(qs)) != len(qs) or set(rs) & set(ur) or set(qs) & set(uq):
            bad.append(('label-counted-twice', 'pairs %s ur %s uq %s' % (list(zip(rs, qs)), ur, uq)))
        r_lo, r_hi, q_lo, q_hi = min(rs), max(rs), min(qs), max(qs)
        # "inside the span": strictly between the outer paired labels by label number AND by coordinate (a label coinciding
        # with a boundary pair's coordinate is not strictly inside; the statement does not decide it, so it is not demanded)
        rc = sorted(rlab[i] for i in (r_lo, r_hi) if i in rlab)
        qc = sorted(qlab[i] for i in (q_lo, q_hi) if i in qlab)
        inside_r = [i for i in range(r_lo + 1, r_hi) if i not in rs and i in rlab and rc[0] < rlab[i] < rc[-1]]
        inside_q = [i for i in range(q_lo + 1, q_hi) if i not in qs and i in qlab and qc[0] < qlab[i] < qc[-1]]
        if not set(inside_r) <= set(ur):
            bad.append(('reference-label-inside-span-unaccounted', 'missing %s' % sorted(set(inside_r) - set(ur))))
        if not set(inside_q) <= set(uq):
            bad.append(('query-label-inside-span-unaccounted', 'missing %s' % sorted(set(inside_q) - set(uq))))
        for extra, lo, hi, name in ((sorted(set(ur) - set(inside_r)), r_lo, r_hi, 'reference'),
                                    (sorted(set(uq) - set(inside_q)), q_lo, q_hi, 'query')):
            if extra:
                boundary += len(extra)
                below = sorted([e for e in extra if e < lo], reverse=True)
                above = sorted(e for e in extra if e > hi)
                if below != list(range(lo - 1, lo - 1 - len(below), -1)) or above != list(range(hi + 1, hi + 1 + len(above))):
                    bad.append((name + '-label-outside-span-charged', 'extra %s span %s..%s' % (extra, lo, hi)))
    return bad, boundary


def row_problems(row, rlab, qlab, sp, dp, su, maxd):
    bad = []
    tot = 0.0
    boundary = 0
    nseg = 0
    unp = False
    for s in row.segments:
        if s.empty:
            continue
        nseg += 1
        b, bd = segment_problems(s, rlab, qlab, sp, dp, su, maxd)
        bad += b
        boundary += bd
        unp = unp or len(s.alignedPositions) != len(s.positions)
        tot += s.segmentScore
    if abs(tot - row.confidence) > 1e-6:
        bad.append(('confidence-not-sum-of-segments', 'sum %s confidence %s' % (tot, row.confidence)))
    # "none is counted twice" also holds ACROSS the segments of one record: a pair kept by two segments is summed twice
    seen_r, seen_q = {}, {}
    for k, s in enumerate(row.segments):
        for p in s.positions:
            if is_pair(p):
                if p.reference.siteId in seen_r and seen_r[p.reference.siteId] != k:
                    bad.append(('reference-label-counted-in-two-segments', 'label %s in segments %s and %s' % (p.reference.siteId, seen_r[p.reference.siteId], k)))
                if p.query.siteId in seen_q and seen_q[p.query.siteId] != k:
                    bad.append(('query-label-counted-in-two-segments', 'label %s in segments %s and %s' % (p.query.siteId, seen_q[p.query.siteId], k)))
                seen_r[p.reference.siteId] = k
                seen_q[p.query.siteId] = k
    return bad, boundary, nseg, unp


@core.guarded(lambda tup, rpos, qpos, peaks, rev, *a: dict(tuple=list(tup), reference=rpos, query=qpos, peaks=peaks, reverse=rev))
def check_case(tup, rpos, qpos, peaks, rev, acc, aligner=None):
    sp, dp, su, maxd, ms, bs = tup
    aligner = aligner or make_aligner(maxd, sp, dp, su, ms, bs)
    ref = OpticalMap(1, rpos[-1] + STEP, rpos)
    q = OpticalMap(2, qpos[-1] + 1, qpos)
    row = aligner.align(ref, q, [Peak(p, 10.) for p in peaks], rev)
    rlab = label_table(rpos, 0, 0, False)
    qlab = label_table(qpos, qpos[-1] + 1, 0, rev)
    bad, boundary, nseg, unp = row_problems(row, rlab, qlab, sp, dp, su, maxd)
    found = [(b[0], '%s | row=%s' % (b[1], [str(s) for s in row.segments if not s.empty]), 'aligner', {}) for b in bad]
    if acc is not None:
        acc.evals += 1
        acc.transitions += 2 + 3 * len(peaks)
        acc.state((rev, nseg, round(row.confidence, 3)))
        if nseg >= 2 or unp:
            acc.nontriv((tup, tuple(rpos), tuple(qpos), tuple(peaks), rev))
        acc.classes['segments=%d' % min(nseg, 3)] += 1
        if boundary:
            acc.classes['boundary_unpaired'] += boundary
        case = dict(tuple=list(tup), reference=rpos, query=qpos, peaks=peaks, reverse=rev)
        for f in found:
            acc.viol(f[0], case, f[1], f[2], f[3])
        acc.sample(case)
    return found


class LayerA(core.Layer):
    def __init__(self, name, nr, nq, tuples, optional=False):
        self.name, self.optional = name, optional
        self.refs = lattice.ref_sets(nr, STEP)
        self.qrys = []
        for q0 in lattice.qry_sets(nq, STEP):
            for jit in itertools.product((-3, 0, 2), repeat=len(q0) - 1):
                self.qrys.append([0] + [p + j for p, j in zip(q0[1:], jit)])
        self.peaks = lattice.peak_lists(nr, STEP, 3, both_orders=False)
        self.tuples = tuples
        self.bounds = dict(NR=nr, NQ=nq, step=STEP, jitter=[-3, 0, 2], peaks_per_list=[1, 3], strands=['+', '-'],
                           tuples_sp_dp_su_maxd_ms_bs=[list(t) for t in tuples])
        self.rule = '%d reference sets x %d jittered queries x %d peak lists x 2 strands x %d parameter tuples' % (
            len(self.refs), len(self.qrys), len(self.peaks), len(tuples))

    def nblocks(self):
        return len(self.tuples) * len(self.refs)

    def run_block(self, b, acc):
        tup = self.tuples[b // len(self.refs)]
        rpos = self.refs[b % len(self.refs)]
        sp, dp, su, maxd, ms, bs = tup
        aligner = make_aligner(maxd, sp, dp, su, ms, bs)
        for qpos in self.qrys:
            for peaks in self.peaks:
                for rev in (False, True):
                    acc.seq += 1
                    check_case(tup, rpos, qpos, peaks, rev, acc, aligner)

    def replay(self, case):
        return check_case(tuple(case['tuple']), case['reference'], case['query'], case['peaks'], case['reverse'], None)


class FractionalA(LayerA):
    """query labels off the lattice by fractional amounts around maxDistance (4 -> 3.5 / 4.5, 6 -> 5.5 / 6.5): a pair must be within
    maxPairDistance of the diagonal measured on the real coordinates"""

    def __init__(self, name, tuples, optional=False):
        LayerA.__init__(self, name, 3, 3, tuples, optional)
        self.qrys = []
        for q0 in lattice.qry_sets(3, STEP):
            for jit in itertools.product((-4.5, -3.5, 0, 4.5, 6.5), repeat=len(q0) - 1):
                self.qrys.append([0] + [p + j for p, j in zip(q0[1:], jit)])
        self.bounds = dict(self.bounds, jitter=[-4.5, -3.5, 0, 4.5, 6.5], NR=3, NQ=3)
        self.rule = 'fractional jitter: %d reference sets x %d jittered queries x %d peak lists x 2 strands x %d parameter tuples' % (
            len(self.refs), len(self.qrys), len(self.peaks), len(tuples))


class LadderA(core.Layer):
    def __init__(self, name, full, tuples, optional=False):
        self.name, self.optional = name, optional
        self.cases = list(lattice.ladder_cases(full))
        self.tuples = tuples
        self.chunk = 40
        self.bounds = dict(worlds='indel-ladder worlds of mc.props.c15.ladder_worlds(full=%s)' % full, peaks_per_list=[1, 3],
                           strands=['+ q', '- mirror(q)'], tuples=[list(t) for t in tuples])
        self.rule = '%d (world, peak list) cases x 2 strands x %d parameter tuples' % (len(self.cases), len(tuples))

    def nblocks(self):
        return (len(self.cases) + self.chunk - 1) // self.chunk

    def run_block(self, b, acc):
        for name, ref, q, peaks in self.cases[b * self.chunk:(b + 1) * self.chunk]:
            for tup in self.tuples:
                for rev, qq in ((False, q), (True, sorted(q[-1] - p for p in q)), (True, q)):
                    acc.seq += 1
                    check_case(tup, ref, qq, peaks, rev, acc)

    def replay(self, case):
        return check_case(tuple(case['tuple']), case['reference'], case['query'], case['peaks'], case['reverse'], None)


# ------------------------------------------------------------------------------------------------
# layer B

DEFAULTS = dict(sp=1000, dp=1.0, su=-250, d=1500, ms=1000, bs=1200)
DEVIATIONS = dict(sp=700, dp=0.5, su=-100, d=600, ms=1500, bs=600)


ZEROS = dict(dp=0, su=0, d=0)      # zero is a legal value of these options ("the values used are the ones given")


def settings(maxdev):
    keys = list(DEVIATIONS)
    out = [()]
    for k in range(1, maxdev + 1):
        for combo in itertools.combinations(keys, k):
            out.append(tuple(x for key in combo for x in ('-' + key, str(DEVIATIONS[key]))))
    for key, v in ZEROS.items():
        out.append(('-' + key, str(v)))
    out.append(('-dp', '0', '-su', '0'))
    return out


def params_of(extra):
    p = dict(DEFAULTS)
    for k, v in zip(extra[::2], extra[1::2]):
        p[k.lstrip('-')] = float(v)
    return p


def in_child(ctx, mode, extra, obs):
    """runs inside the run's own process (the row objects do not leave it): judge every returned row and every candidate row"""
    p = params_of(extra)
    found = []
    stats = []
    rows = []
    if obs.result is not None:
        rows += [('returned', r) for r in obs.result.rows]
    rows += [('candidate', ev[1].alignment) for ev in obs.events if ev[0] == 'row']
    for origin, row in rows:
        rmap, qmap = ctx.rmaps.get(int(row.referenceId)), ctx.qmaps.get(int(row.queryId))
        if rmap is None or qmap is None:
            found.append(('row-names-unknown-map', '%s %s' % (row.queryId, row.referenceId), origin, {}))
            continue
        rev = bool(row.reverseStrand)
        qpos = [x - qmap[1][0] for x in qmap[1]]
        rlab = label_table(rmap[1], 0, 0, False)
        qlab = label_table(qpos, qpos[-1] + 1, 0, rev)
        bad, boundary, nseg, unp = row_problems(row, rlab, qlab, p['sp'], p['dp'], p['su'], p['d'])
        for b in bad:
            found.append((b[0], '%s mode=%s extra=%s qry=%s %s | %s' % (origin, mode, list(extra), row.queryId,
                                                                        '-' if rev else '+', b[1]), origin, {}))
        # -ms is wired too: a candidate with a single non-empty segment was never trimmed, so that segment is exactly what the
        # factory accepted and must reach the minScore given on the command line
        if origin == 'candidate':
            ne = [sg for sg in row.segments if not sg.empty]
            if len(ne) == 1 and ne[0].segmentScore < p['ms'] - 1e-6:
                found.append(('untrimmed-segment-below-given-minScore', 'mode=%s extra=%s qry=%s segment score %s < -ms %s' % (
                    mode, list(extra), row.queryId, ne[0].segmentScore, p['ms']), origin, {}))
        stats.append((origin, boundary, nseg, unp, int(row.queryId), rev, round(float(row.confidence), 2)))
    want = ['%.2f' % r.confidence for r in obs.result.rows] if obs.result is not None else None
    return dict(found=found, stats=stats, want=want)


def judge(ctx, mode, extra, obs, acc):
    from mc import xmaptext
    ex = obs.extra or dict(found=[], stats=[], want=None)
    found = list(ex['found'])
    for origin, boundary, nseg, unp, qid, rev, conf in ex['stats']:
        if acc is not None:
            acc.classes[origin + '-rows'] += 1
            if boundary:
                acc.classes['boundary_unpaired'] += boundary
            if nseg >= 2 or unp or extra:
                acc.nontriv((ctx.key, mode, extra, origin, qid, rev, conf, nseg))
    # Confidence text of the main file = confidence of the returned rows, two decimals
    if ex['want'] is not None and 'main' in obs.files:
        got = [r['Confidence'] for r in xmaptext.parse(obs.files['main'])[2]]
        if ex['want'] != got:
            found.append(('confidence-text', 'mode=%s file main: written %s, rows have %s' % (mode, got, ex['want']), 'writer', {}))
    return found


def layers(tier, seed):
    ws = e2e.std_worlds('quick', seed, depth2=False)
    if tier == 'quick':
        ws = ws[::3]
        sets = settings(1)
        la = [LayerA('A:NR4,NQ4', 4, 4, TUPLES[:6]), FractionalA('A:fractional', TUPLES[:4]), LadderA('A:indel-ladders', False, TUPLES[:4])]
    else:
        sets = settings(2)
        la = [LayerA('A:NR4,NQ4', 4, 4, TUPLES), FractionalA('A:fractional', TUPLES), LadderA('A:indel-ladders', True, TUPLES), LayerA('A:NR5,NQ4', 5, 4, TUPLES[:6])]
    ws = ws + e2e.same_locus_worlds()
    lb = e2e.WorldLayer('B:worlds', ws, judge, modes=('best', 'separate'), extras=sets, keep_result=True, extensions=[sink.Rows], in_child=in_child,
                        bounds=dict(worlds=len(ws), modes=['best', 'separate'], settings=[list(s) for s in sets]),
                        rule='%d worlds x 2 modes x %d CLI settings (<=%d deviations); returned rows and all candidate rows' % (
                            len(ws), len(sets), 1 if tier == 'quick' else 2))
    return la + [lb]
