"""C11 - mirroring a query mirrors its first-pass alignment.

Both sides compute on bit-identical arrays: all coordinates are multiples of both resolutions and the query is trimmed, so the
bit vector of the mirrored query is the reversed bit vector of the original and its mirrored label coordinates coincide with the
original coordinates.  Only the strand-specific code differs; no float tolerance is needed.
Layer A (S1): Aligner.align(ref, q, peaks, '+') vs Aligner.align(ref, mirror(q), peaks, '-') on the C01 lattice (maxDistance
below half a step).  Layer B (S2): Program.run 'separate' on lattice-1400 worlds, q and mirror(q) in two separate runs.
"""
from mc import core, lattice, e2e, worlds, xmaptext, driver
from mc.coma import make_aligner, OpticalMap, Peak, is_pair, unpaired_ref, unpaired_qry

RULE = ("A: C01 lattice (all reference subsets x query subsets containing 0 x 1..3 seed peaks, both orders) with maxDistance 4 < half "
        "a step, forward run of q vs reverse run of mirror(q); B: lattice-1400 catalogue references x windows x edit scripts with "
        "deltas that are multiples of 1400 (<= 1 edit quick, <= 2 thorough), -d 600, mode 'separate', main file of q vs of mirror(q); "
        "non-trivial = the alignment has >= 2 segments (strand-aware chaining matters) or contains unpaired positions; distinct by "
        "full input")
ASSUMPTIONS = ["no equidistant ties: maxPairDistance below half the lattice step (precondition of the property)",
               "exact seed-score ties (palindromic references) are judged like any other case and counted as seed-score-tie-between-candidates"]
STEP = 10
CONFIGS = [(100, 1, -25, 100, 120, 1, 0), (100, 1, -25, 60, 120, 1, 0), (100, 1, -25, 150, 60, 1, 0), (100, 1, 0, 100, 120, 1, 1)]


def canon(row, n, mirrored):
    def qn(k):
        return n + 1 - k if mirrored else k
    out = []
    for s in row.segments:
        if s.empty:
            continue
        pos = []
        for p in s.positions:
            if is_pair(p):
                pos.append(('P', p.reference.siteId, qn(p.query.siteId), p.queryShift, p.score))
            elif unpaired_ref(p):
                pos.append(('R', p.position.reference.siteId, p.score))
            else:
                pos.append(('Q', qn(p.position.query.siteId), p.score))
        out.append((tuple(pos), s.segmentScore, s.peak.position))
    return (tuple(out), row.confidence, row.referenceStartPosition, row.referenceEndPosition,
            tuple((p.reference.siteId, qn(p.query.siteId)) for p in row.alignedPairs), row.cigarString)


def has_equidistant_tie(maxd, rpos, qpos, peaks):
    """the property's precondition: no label has two partners at exactly the same distance within maxDistance under any seed peak"""
    for p in peaks:
        for r in rpos:
            d = [abs(q - (r - p)) for q in qpos if abs(q - (r - p)) <= maxd]
            if len(set(d)) < len(d):
                return True
        for q in qpos:
            d = [abs(q - (r - p)) for r in rpos if abs(q - (r - p)) <= maxd]
            if len(set(d)) < len(d):
                return True
    return False


@core.guarded(lambda cfg, maxd, rpos, qpos, peaks, *a: dict(config=list(cfg), maxDistance=maxd, reference=rpos, query=qpos, peaks=peaks))
def check_case(cfg, maxd, rpos, qpos, peaks, acc, aligner=None):
    if has_equidistant_tie(maxd, rpos, qpos, peaks):
        if acc is not None:
            acc.evals += 1
            acc.classes['skipped:equidistant-tie(outside-precondition)'] += 1
        return []
    al = aligner or make_aligner(maxd, *cfg)
    ref = OpticalMap(1, rpos[-1] + STEP, rpos)
    q = OpticalMap(2, qpos[-1] + 1, qpos)
    qm = OpticalMap(2, qpos[-1] + 1, sorted(qpos[-1] - p for p in qpos))
    n = len(qpos)
    pk = [Peak(p, 10.) for p in peaks]
    rf = al.align(ref, q, pk, False)
    rr = al.align(ref, qm, [Peak(p, 10.) for p in peaks], True)
    cf, cr = canon(rf, n, False), canon(rr, n, True)
    found = []
    if cf != cr:
        which = [name for name, a, b in zip(('segments', 'confidence', 'refStart', 'refEnd', 'pairs', 'hitenum'), cf, cr) if a != b]
        found.append(('mirror-asymmetry:' + which[0], 'forward=%s mirrored=%s' % (cf, cr), 'aligner', {}))
    if rf.orientation != '+' or rr.orientation != '-':
        found.append(('orientation', '', 'aligner', {}))
    if (rf.queryStartPosition, rf.queryEndPosition) != (rr.queryEndPosition, rr.queryStartPosition) and cf == cr:
        # '+' measures from the first label, '-' from the last one: start and end swap under mirroring
        found.append(('query-start-end', '%s %s vs %s %s' % (rf.queryStartPosition, rf.queryEndPosition, rr.queryStartPosition,
                                                            rr.queryEndPosition), 'row', {}))
    if acc is not None:
        acc.evals += 1
        acc.transitions += 2 * (2 + 3 * len(peaks))
        nseg = len(cf[0])
        acc.state((cf[4], nseg))
        if nseg >= 2 or any(x[0] != 'P' for s in cf[0] for x in s[0]):
            acc.nontriv((cfg, tuple(rpos), tuple(qpos), tuple(peaks)))
        acc.classes['segments=%d' % min(nseg, 3)] += 1
        case = dict(config=list(cfg), maxDistance=maxd, reference=rpos, query=qpos, peaks=peaks)
        for f in found:
            acc.viol(f[0], case, f[1], f[2], f[3])
        acc.sample(case)
    return found


class LayerA(core.Layer):
    def __init__(self, name, nr, nq, configs, optional=False):
        self.name, self.optional = name, optional
        self.refs = lattice.ref_sets(nr, STEP)
        self.qrys = lattice.qry_sets(nq, STEP)
        self.peaks = lattice.peak_lists(nr, STEP, 3)
        self.configs = configs
        self.bounds = dict(NR=nr, NQ=nq, step=STEP, maxDistance=4, peaks_per_list=[1, 3], configs=[list(c) for c in configs])
        self.rule = '%d reference sets x %d query sets x %d peak lists x %d configs, each run forward and mirrored' % (
            len(self.refs), len(self.qrys), len(self.peaks), len(configs))

    def nblocks(self):
        return len(self.configs) * len(self.refs)

    def run_block(self, b, acc):
        cfg = self.configs[b // len(self.refs)]
        rpos = self.refs[b % len(self.refs)]
        al = make_aligner(4, *cfg)
        for qpos in self.qrys:
            for peaks in self.peaks:
                acc.seq += 1
                check_case(cfg, 4, rpos, qpos, peaks, acc, al)

    def replay(self, case):
        return check_case(tuple(case['config']), case['maxDistance'], case['reference'], case['query'], case['peaks'], None)


class LadderA(core.Layer):
    def __init__(self, name, full, configs, optional=False):
        self.name, self.optional = name, optional
        self.cases = list(lattice.ladder_cases(full))
        self.configs = configs
        self.chunk = 40
        self.bounds = dict(worlds='indel-ladder worlds of mc.props.c15.ladder_worlds(full=%s)' % full, peaks_per_list=[1, 3], maxDistance=4,
                           configs=[list(c) for c in configs])
        self.rule = '%d (world, peak list) cases x %d configs, each run forward and mirrored' % (len(self.cases), len(configs))

    def nblocks(self):
        return (len(self.cases) + self.chunk - 1) // self.chunk

    def run_block(self, b, acc):
        for name, ref, q, peaks in self.cases[b * self.chunk:(b + 1) * self.chunk]:
            for cfg in self.configs:
                acc.seq += 1
                check_case(cfg, 4, ref, q, peaks, acc)

    def replay(self, case):
        return check_case(tuple(case['config']), case['maxDistance'], case['reference'], case['query'], case['peaks'], None)


# ------------------------------------------------------------------------------------------------
# layer B

def edits1400(q, full):
    n = len(q)
    idx = worlds.index_menu(n, full)
    ops = [('del', i) for i in idx]
    for i in idx:
        if i < n - 1 and q[i + 1] - q[i] >= 2800:
            ops.append(('ins1400', i))
    for i in idx:
        for d in (1400, -1400):
            ops.append(('shift', i, d))
    for i in sorted(set(idx) | set(range(3, n - 3, 2))):
        if i < n - 1:
            for d in (2800, -2800, 4200, -4200, 28000):
                ops.append(('indel', i, d))
    for k in (7, 10):
        ops += [('cut', 'head', k), ('cut', 'tail', k)]
    # no 'dup': coincident labels are equidistant ties, excluded by the property's precondition
    return ops


def apply1400(q, op):
    if op[0] == 'ins1400':
        i = op[1]
        return q[:i + 1] + [q[i] + 1400.0] + q[i + 1:]
    return worlds.apply_edit(q, op)


def lattice_queries(tier, seed):
    refs = [worlds.catalogue_ref(0, 'lattice1400', 64, ref_id=3), worlds.catalogue_ref(1, 'lattice1400', 64, ref_id=8)]
    wins = [(0, 12, 20), (1, 30, 14)] if tier == 'quick' else [(0, 12, 20), (1, 30, 14), (0, 33, 26), (1, 8, 18), (seed % 2, 20 + seed % 9, 16)]
    out = []
    for ri, s, l in wins:
        for rev in (False, True):
            (qid, ql, q), truth = worlds.window_query(refs[ri], s, l, rev)
            other = worlds.window_query(refs[ri], (s + l + 7) % 40, 9, rev)[0][2]
            scripts = [([], list(q))]
            for op in edits1400(q, tier == 'thorough'):
                q1 = apply1400(q, op)
                if q1 is None or q1[0] != 0:
                    continue
                scripts.append(([op], q1))
                if tier == 'thorough' and (ri, s) == (0, 12):
                    for op2 in edits1400(q1, False):
                        q2 = apply1400(q1, op2)
                        if q2 is not None and q2[0] == 0:
                            scripts.append(([op, op2], q2))
            for gap in (2800.0, 28000.0):
                scripts.append(([('chimera', 'window', gap)], worlds.apply_edit(q, ('chimera', other, gap))))
            for sc, pos in scripts:
                if all(abs(p / 1400.0 - round(p / 1400.0)) < 1e-9 for p in pos):
                    out.append((ri, dict(window=[ri, s, l], reverse=rev, script=e2e._js(sc)), pos))
    return refs, out


def tandem_ref():
    """lattice-4200 reference: unique flank (20 labels), nine tandem copies of a 16.8 kb unit (labels at 0, 4200, 8400), unique flank.
    Inside the array the primary correlation has peaks 16.8 kb apart - closer than minPeakDistance (20 kb) - on BOTH strands"""
    a = worlds.catalogue_ref(3, 'lattice4200', 21, ref_id=5)
    b = worlds.catalogue_ref(4, 'lattice4200', 21, ref_id=5)
    pos = list(a[2])
    x = pos[-1] + 12600.0
    for u in range(9):
        for o in (0.0, 4200.0, 8400.0):
            pos.append(x + u * 16800.0 + o)
    x = pos[-1] + 12600.0
    pos += [x + (p - b[2][0]) for p in b[2]]
    return (5, pos[-1] + 14000.0, pos)


def palindromic_ref():
    """flank, segment S, gap, INVERTED copy of S, flank: a molecule of S has two equally good placements, one per strand"""
    a = worlds.catalogue_ref(6, 'lattice4200', 60, ref_id=9)
    pos = list(a[2][:40])
    seg = pos[10:30]
    end = pos[-1] + 16800.0
    inv = [end + (seg[-1] - p) for p in reversed(seg)]
    tail = [inv[-1] + 12600.0 + (p - a[2][40]) for p in a[2][40:60]]
    return (9, tail[-1] + 14000.0, pos + inv + tail)


def lattice4200_queries(tier):
    ref = tandem_ref()
    plain = worlds.catalogue_ref(5, 'lattice4200', 48, ref_id=6)
    out = []
    pal = palindromic_ref()
    for s in (10, 12, 15) if tier == 'quick' else (10, 11, 12, 14, 15, 17):
        for l in (12, 18):
            for rev in (False, True):
                out.append(([pal], dict(window=[9, s, l], reverse=rev, lattice=4200, palindromic=True), worlds.window_query(pal, s, l, rev)[0][2]))
    # tight references (one label a few seeding bins in front of and behind the molecule): one strand's correlation of the molecule - or
    # of its mirror image - often has no peak at all
    for k in (8, 11) if tier == 'quick' else (8, 10, 11, 12, 13, 15):
        for before, after in ((5600.0, 4200.0), (2800.0, 7000.0), (4200.0, 4200.0)):
            base = worlds.catalogue_ref(k, 'lattice4200', 14, ref_id=1, lead=0.0)[2]
            labels = [0.0] + [round(before + p - base[0], 1) for p in base]
            labels.append(round(labels[-1] + after, 1))
            tight = (1, labels[-1] + 1.0, labels)
            for rev in (False, True):
                out.append(([plain, tight], dict(window=[1, 1, 14], reverse=rev, lattice=4200, tight=[before, after]), worlds.window_query(tight, 1, 14, rev)[0][2]))
    for r, starts in ((ref, (4, 14, 19, 24, 30, 41, 48)), (plain, (5, 20))):
        for s in starts:
            for l in (14, 20):
                for rev in (False, True):
                    q = worlds.window_query(r, s, l, rev)[0][2]
                    out.append(([r, plain] if r is ref else [plain], dict(window=[r[0], s, l], reverse=rev, lattice=4200), q))
                    if tier == 'thorough' or s in (14, 24, 5):
                        for i in (l // 2, l // 2 + 3):
                            q1 = worlds.apply_edit(q, ('indel', i, 4200.0))
                            if q1:
                                out.append(([r, plain] if r is ref else [plain], dict(window=[r[0], s, l], reverse=rev, lattice=4200, script=[['indel', i, 4200]]), q1))
    return out


def seeds_by_reference(obs):
    out = {}
    maps = 0
    for ev in obs.events:
        if ev[0] == 'map':
            maps += 1
        if ev[0] == 'seeds' and maps == 1:         # first pass only (second-pass fragments are different molecules)
            out.setdefault((ev[3], ev[4]), []).extend((round(p[0], 3), p[1], p[2]) for p in ev[5])
    return {k: sorted(v) for k, v in out.items()}


def first_pass_records(obs):
    return xmaptext.parse(obs.files.get('main', ''))[2]


SETTINGS = (('-d', '600'), ('-d', '600', '-pt', '12', '-ma', '30000'))
SETTINGS_4200 = ((), ('-pt', '12', '-ma', '30000'))       # default maxPairDistance 1500 < half of the 4200 step: still no equidistant ties


def check_world(refs, pos, acc, key=None, setting=0):
    # the contig extends beyond the last label (and the first label is at 0): trimming must cut both ends on both strands
    q = (7, pos[-1] + 1.0 + 2500.0, list(pos))
    qm = (7, pos[-1] + 1.0 + 700.0, sorted(pos[-1] - p for p in pos))
    if (len(pos) + int(pos[1] // 100)) % 3 == 0:
        # every third molecule ends exactly ON its last label (ContigLength = coordinate of the last label), and so does its mirror
        q = (7, pos[-1], list(pos))
        qm = (7, pos[-1], sorted(pos[-1] - p for p in pos))
    n = len(pos)
    extra = list((SETTINGS + SETTINGS_4200)[setting])
    o1 = driver.run_world(dict(refs=refs, queries=[q]), 'separate', extra=extra, extensions=[sink_seeds()], in_child=_nseg)
    # the mirror image as a shell one-liner makes it (Position := ContigLength-1 - Position, row by row): its label rows run from the
    # far end of the molecule, i.e. in DESCENDING coordinate order
    from mc import cmaptext
    rows = cmaptext.rows([qm])
    mirror_text = cmaptext.text([qm], row_order=list(range(len(rows) - 2, -1, -1)) + [len(rows) - 1]) if len(pos) % 2 else None
    o2 = driver.run_world(dict(refs=refs, queries=[qm], qry_text=mirror_text), 'separate', extra=extra, extensions=[sink_seeds()], in_child=_nseg)
    found = []
    case = dict(refs=[[m[0], m[1], list(m[2])] for m in refs], query=list(pos), setting=setting)
    if o1.error or o2.error:
        if bool(o1.error) != bool(o2.error):
            found.append(('abort-asymmetry', '%s / %s' % (o1.error, o2.error), 'run', {}))
        if acc is not None:
            acc.evals += 2
            acc.classes['aborted(deferred-to-C07)'] += 1
            for f in found:
                acc.viol(f[0], case, f[1], f[2], f[3])
        return found
    r1, r2 = first_pass_records(o1), first_pass_records(o2)
    tie = _strand_tie(o1) or _strand_tie(o2)
    diffs = []
    # the seeding itself is mirror symmetric: the primary peaks of q on strand s are exactly those of mirror(q) on the other strand
    s1, s2 = seeds_by_reference(o1), seeds_by_reference(o2)
    for (rid, rev), peaks in sorted(s1.items()):
        if s2.get((rid, not rev)) != peaks:
            found.append(('seed-peaks-not-mirrored', 'reference %s: q on %s has primary peaks %s, mirror(q) on %s has %s' % (
                rid, '-' if rev else '+', peaks[:6], '+' if rev else '-', (s2.get((rid, not rev)) or [])[:6]), 'seeding', {}))
            break
    if len(r1) != len(r2):
        diffs.append(('record-count', '%d vs %d' % (len(r1), len(r2))))
    for a, b in zip(r1, r2):
        if {a['Orientation'], b['Orientation']} != {'+', '-'}:
            diffs.append(('orientation-not-opposite', '%s %s' % (a['Orientation'], b['Orientation'])))
        for col in ('RefContigID', 'Confidence', 'HitEnum', 'RefStartPos', 'RefEndPos', 'QryLen', 'RefLen'):
            if a[col] != b[col]:
                diffs.append((col, '%s vs %s' % (a[col], b[col])))
        if a['pairs'] is None or b['pairs'] is None or [(r, n + 1 - k) for r, k in b['pairs']] != a['pairs']:
            diffs.append(('pairs-not-mirrored', '%s vs %s' % (a['pairs'], b['pairs'])))
        if (a['QryStartPos'], a['QryEndPos']) != (b['QryEndPos'], b['QryStartPos']):
            diffs.append(('QryStart/End-not-swapped', '%s %s vs %s %s' % (a['QryStartPos'], a['QryEndPos'], b['QryStartPos'], b['QryEndPos'])))
    # exact score ties between the strands (palindromic references) ARE judged: the statement makes no exception for them, and the
    # unmodified tree breaks such ties independently of the reading direction
    if diffs:
        found.append(('mirror-asymmetry:' + diffs[0][0], '; '.join('%s: %s' % d for d in diffs[:4]), 'first-pass', {}))
    if acc is not None:
        acc.evals += 2
        acc.transitions += 6 + sum(o1.map_calls) + sum(o2.map_calls)
        nseg = o1.extra or 0
        acc.state((len(r1), tuple(r['HitEnum'] for r in r1)))
        if nseg >= 2:
            acc.nontriv(key)
            acc.classes['multi-segment-records'] += 1
        elif r1:
            acc.classes['single-segment-records'] += 1
        else:
            acc.classes['no-record'] += 1
        if tie:
            acc.classes['seed-score-tie-between-candidates'] += 1
        for f in found:
            acc.viol(f[0], case, f[1], f[2], f[3])
        acc.sample(lambda: dict(query=list(pos), refs='%d lattice-1400 references' % len(refs)))
    return found


def _nseg(o):
    return max([sum(1 for s in r.segments if not s.empty) for r in (o.result.rows if o.result is not None else [])] + [0])


def sink_seeds():
    from mc import sink
    return sink.Seeds()


def _strand_tie(obs):
    """two seeds of one query with exactly equal score (selection between them is order dependent, outside the property)"""
    scores = sorted((p[1] for ev in obs.events if ev[0] == 'seeds' and ev[2] == 0 for p in ev[5]), reverse=True)[:4]
    return any(a == b for a, b in zip(scores, scores[1:]))


class LayerB(core.Layer):
    name = 'B:lattice1400'

    def __init__(self, tier, seed):
        self.refs, self.qs = lattice_queries(tier, seed)
        self.qs4200 = lattice4200_queries(tier)
        self.bounds = dict(references='2 lattice-1400 catalogue references', queries=len(self.qs), edits=[0, 1] if tier == 'quick' else [0, 2],
                           parameters=[list(x) for x in SETTINGS + SETTINGS_4200], mode='separate', lattice4200_queries=len(self.qs4200))
        self.rule = '%d queries (windows x strands x edit scripts on the 1400 lattice), each run as q and as mirror(q)' % len(self.qs)

    def nblocks(self):
        return len(self.qs) * len(SETTINGS) + len(self.qs4200) * len(SETTINGS_4200)

    def run_block(self, b, acc):
        acc.seq += 1
        n1 = len(self.qs) * len(SETTINGS)
        if b >= n1:
            refs, desc, pos = self.qs4200[(b - n1) // len(SETTINGS_4200)]
            check_world(refs, pos, acc, key=b, setting=len(SETTINGS) + (b - n1) % len(SETTINGS_4200))
            return
        ri, desc, pos = self.qs[b // len(SETTINGS)]
        check_world([self.refs[ri]] if b % 3 else list(self.refs), pos, acc, key=b, setting=b % len(SETTINGS))

    def replay(self, case):
        return check_world([tuple(m) for m in case['refs']], case['query'], None, setting=case.get('setting', 0))


def layers(tier, seed):
    if tier == 'quick':
        return [LayerA('A:NR5,NQ4', 5, 4, CONFIGS[:2]), LadderA('A:indel-ladders', False, CONFIGS[:2]), LayerB(tier, seed)]
    return [LayerA('A:NR5,NQ4', 5, 4, CONFIGS), LadderA('A:indel-ladders', True, CONFIGS), LayerA('A:NR6,NQ5', 6, 5, CONFIGS), LayerB(tier, seed)]
