"""C10 - a query's record is independent of the other molecules and of file order.

S2 on Program.run: for each base world (4 queries incl. a chimeric and an unalignable one, unsorted ids; 3 references) enumerate
every non-empty subset of the queries in every order, every order of the references, every -qId and -rId subset (compared with
physically restricted files) and row-level permutations of both CMAP files.  (The reader-level part - ALL row permutations of small
files - is decided by C17's exploration of CmapReader, which this check re-runs at a small bound.)
"""
import itertools

from mc import core, e2e, driver, xmaptext, cmaptext, sink
from mc.props import c17

RULE = ("per base world: 64 ordered query tuples (all orderings of all non-empty subsets of 4 queries), 6 reference orders, 15 -qId "
        "subsets, 7 -rId subsets, 6 row-level rearrangements of the CMAP files; modes separate/best/all/joined; oracle = for every query "
        "present, its records in every file (without XmapEntryID) equal those of the full run / of the physically restricted run; "
        "non-trivial = variant changes which molecules or which order COMA sees; distinct by (world, variant, mode)")
ASSUMPTIONS = ["reference-order clause: cases with two candidates of exactly equal confidence or two seeds of exactly equal score are "
               "counted as tie_undecided, not judged", "records compared as field tuples without XmapEntryID"]
MODES = ('separate', 'best', 'all', 'joined')
_BASE = {}


def per_query(obs):
    out = {}
    for fk, t in obs.files.items():
        for r in xmaptext.parse(t)[2]:
            out.setdefault(int(r['QryContigID']), {}).setdefault(fk, []).append(xmaptext.record_key(r))
    return out


def has_tie(obs):
    ties = set()
    cands, seeds = {}, {}
    for ev in obs.events:
        if ev[0] == 'cands':
            for c in ev[1]:
                cands.setdefault((c['query'], c['shift']), []).append(round(c['confidence'], 9))
        elif ev[0] == 'seeds':
            seeds.setdefault((ev[1], ev[2]), []).extend(p[1] for p in ev[5])
    for (q, sh), cs in cands.items():
        if len(set(cs)) < len(cs):
            ties.add(q)
    for (q, sh), ss in seeds.items():
        top = sorted(ss, reverse=True)[:6]
        if len(set(top)) < len(top):
            ties.add(q)
    return ties


def baseline(wi, world, mode):
    k = (wi, mode)
    if k not in _BASE:
        obs = driver.run_world(world, mode, extensions=[sink.Candidates(), sink.Seeds()])
        _BASE[k] = (obs.error, per_query(obs) if not obs.error else {}, has_tie(obs))
    return _BASE[k]


def variants():
    out = []
    for k in range(1, 5):
        for sub in itertools.combinations(range(4), k):
            for order in itertools.permutations(sub):
                out.append(('subset-order', list(order)))
    for perm in itertools.permutations(range(3)):
        out.append(('ref-order', list(perm)))
    for k in range(1, 5):
        for sub in itertools.combinations(range(4), k):
            out.append(('qId', list(sub)))
    for k in range(1, 4):
        for sub in itertools.combinations(range(3), k):
            out.append(('rId', list(sub)))
    for kind in ('q-reversed', 'q-interleaved', 'q-rotated', 'r-reversed', 'r-interleaved', 'both-reversed'):
        out.append(('rows', kind))
    return out


def rearrange(maps, kind):
    rows = cmaptext.rows([tuple(m) for m in maps])
    n = len(rows)
    if kind == 'reversed':
        order = list(range(n))[::-1]
    elif kind == 'interleaved':
        order = list(range(0, n, 2)) + list(range(1, n, 2))
    else:
        order = list(range(n // 3, n)) + list(range(n // 3))
    return cmaptext.text([tuple(m) for m in maps], row_order=order)


def check_case(wi, world, variant, mode, acc):
    kind, arg = variant
    err, base, ties = baseline(wi, world, mode)
    found = []
    case = dict(world=wi, variant=[kind, arg], mode=mode, world_json=None)
    if err:
        if acc is not None:
            acc.evals += 1
            acc.classes['aborted(deferred-to-C07)'] += 1
        return found
    refs, qs = world['refs'], world['queries']
    expect = base
    judged_q = [q[0] for q in qs]
    tie_guard = False
    if kind == 'subset-order':
        w = dict(refs=refs, queries=[qs[i] for i in arg])
        judged_q = [qs[i][0] for i in arg]
        obs = driver.run_world(w, mode)
    elif kind == 'ref-order':
        w = dict(refs=[refs[i] for i in arg] + list(refs[3:]), queries=qs)      # a 4th (short) reference keeps its place at the end
        obs = driver.run_world(w, mode)
        tie_guard = True
    elif kind == 'qId':
        ids = [qs[i][0] for i in arg]
        obs = driver.run_world(world, mode, extra=['-qId'] + [str(i) for i in ids])
        phys = driver.run_world(dict(refs=refs, queries=[qs[i] for i in arg]), mode)
        if phys.error:
            found.append(('restricted-run-aborted', phys.error, 'run', {}))
        expect = per_query(phys)
        judged_q = None
    elif kind == 'rId':
        keep = [refs[i] for i in arg] + list(refs[3:])
        ids = [r[0] for r in keep]
        obs = driver.run_world(world, mode, extra=['-rId'] + [str(i) for i in ids])
        phys = driver.run_world(dict(refs=keep, queries=qs), mode)
        if phys.error:
            found.append(('restricted-run-aborted', phys.error, 'run', {}))
        expect = per_query(phys)
        judged_q = None
    else:
        w = dict(world)
        if arg.startswith('q-') or arg.startswith('both'):
            w['qry_text'] = rearrange(qs, arg.split('-')[1])
        if arg.startswith('r-') or arg.startswith('both'):
            w['ref_text'] = rearrange(refs, arg.split('-')[1])
        obs = driver.run_world(w, mode)
    if obs.error:
        found.append(('variant-run-aborted', obs.error, 'run', {}))
    else:
        got = per_query(obs)
        if judged_q is None:
            if got != expect:
                found.append(('filter-differs-from-physically-restricted-files', '%s %s: got %s expected %s' % (kind, arg, _short(got), _short(expect)),
                              'filter', {'kind': kind}))
        else:
            for q in judged_q:
                if tie_guard and q in ties:
                    if acc is not None and got.get(q) != expect.get(q):
                        acc.classes['tie_undecided'] += 1
                    continue
                if got.get(q) != expect.get(q):
                    found.append(('record-changed', 'query %s under %s %s (mode %s): %s vs full run %s' % (
                        q, kind, arg, mode, _short({q: got.get(q)}), _short({q: expect.get(q)})), 'independence', {'kind': kind}))
            foreign = set(got) - set(judged_q)
            if foreign:
                found.append(('record-for-absent-query', str(sorted(foreign)), 'independence', {'kind': kind}))
    if acc is not None:
        acc.evals += 2 if kind in ('qId', 'rId') else 1
        acc.transitions += 3 + sum(obs.map_calls)
        acc.state((kind, mode, tuple(sorted((q, tuple(sorted((fk, len(v)) for fk, v in d.items()))) for q, d in per_query(obs).items())) if not obs.error else None))
        acc.nontriv((wi, kind, tuple(arg) if isinstance(arg, list) else arg, mode))
        acc.classes['variant:' + kind] += 1
        case['world_json'] = None
        for f in found:
            acc.viol(f[0], dict(case, world_json=dict(refs=[list(map(_l, m)) for m in refs], queries=[list(map(_l, m)) for m in qs])), f[1], f[2], f[3])
        acc.sample(dict(world=wi, variant=[kind, arg], mode=mode))
    return found


def _l(x):
    return list(x) if isinstance(x, (list, tuple)) else x


def _short(d):
    return {q: {fk: [k[7:9] + (k[-1][:40],) for k in v] for fk, v in (f or {}).items()} for q, f in d.items()}


def base_worlds(tier, seed):
    n = 2 if tier == 'quick' else 24
    refs, pool, sets = e2e.query_sets(n, 'c10', size=(4, 4))
    if tier != 'quick' or seed:
        sets = sets + e2e.query_sets(1 if tier == 'quick' else 8, 'c10-seed-%d' % seed, size=(4, 4))[2]
    ws = [e2e.set_world(refs, pool, s, nrefs=3, short_ref=i % 2 == 1) for i, s in enumerate(sets)]
    for w in ws:
        if len(w['refs']) == 4:
            # a short molecule that belongs to the short reference (id 1), next to molecules longer than that reference
            short = w['refs'][3]
            w['queries'][3] = e2e.worlds.as_map(w['queries'][3][0], e2e.worlds.window_query(short, 1, 8, False)[0][2], trailing=700.0)
            w['desc'][3] = 'plain window of the short reference'
    # a world with a duplicated contig (same labels under two ids): exact score ties between references, so anything that lets the
    # physical order of the file decide shows when rows are rearranged
    dup = (40, refs[0][1], list(refs[0][2]))
    ws.append(dict(refs=[refs[1], dup, refs[0]], queries=[e2e.worlds.as_map(e2e.QIDS[j], pool[i][1]) for j, i in enumerate((0, 1, 6, 2))],
                   desc=['duplicated contig world'] + [pool[i][0] for i in (0, 1, 6, 2)]))
    # one base world holds two molecules of the same locus (+ one of another locus + an unalignable one): 4 queries, 3 references
    sl = e2e.same_locus_worlds()[seed % 4]
    extra = e2e.worlds.as_map(17, pool[1][1])
    ws.append(dict(refs=[refs[1], refs[0], refs[2]], queries=[sl['queries'][0], sl['queries'][1], extra, sl['queries'][2]],
                   desc=sl['desc'] + ['plain']))
    # a molecule aligned in THREE pieces (two first-pass segments around a 5 kb insertion + a second-pass piece behind a 60 kb
    # deletion) whose joined record scores lower than its first-pass record, next to plain molecules with smaller and larger ids
    w = e2e.worlds.window_query(refs[0], 6, 48, False)[0][2]
    q3 = e2e.worlds.apply_edit(list(w[:28]), ('indel', 13, 5000.0))
    q3 = e2e.worlds.apply_edit(q3, ('chimera', list(w[31:41]), max(3000.0, round(w[31] - w[27] - 60000.0, 1))))
    ws.append(dict(refs=[refs[1], refs[0], refs[2]],
                   queries=[e2e.worlds.as_map(4, pool[3][1]), e2e.worlds.as_map(9, q3), e2e.worlds.as_map(17, pool[1][1]), e2e.worlds.as_map(30, [100.0, 20000.0])],
                   desc=['plain', 'three-piece molecule', 'plain', 'unalignable']))
    # a molecule whose two parts are joined (a 4.2 kb insertion) next to one with a larger id whose two parts lie on the same reference
    # but 200+ kb apart (never joined): the joining step handles them one after the other
    r0 = refs[0]
    wa, wb = e2e.worlds.window_query(r0, 6, 14, False)[0][2], e2e.worlds.window_query(r0, 27, 12, False)[0][2]
    qa = e2e.worlds.apply_edit(wa, ('chimera', wb, round(r0[2][27] - r0[2][19] + 4200.0, 1)))
    wc, wd = e2e.worlds.window_query(r0, 8, 13, False)[0][2], e2e.worlds.window_query(r0, 44, 12, False)[0][2]
    qb = e2e.worlds.apply_edit(wc, ('chimera', wd, 5600.0))
    ws.append(dict(refs=[refs[1], refs[0], refs[2]],
                   queries=[e2e.worlds.as_map(9, qb), e2e.worlds.as_map(4, qa), e2e.worlds.as_map(17, pool[1][1]), e2e.worlds.as_map(30, [100.0, 20000.0])],
                   desc=['two parts far apart on one reference', 'two joinable parts', 'plain', 'unalignable']))
    # crossed ids: molecule 4 is joined on reference 9, molecule 9 lies on reference 4 (CMAP ids of the two files are unrelated name spaces)
    rx = [(9, refs[0][1], refs[0][2]), (4, refs[1][1], refs[1][2]), refs[2]]
    ws.append(dict(refs=rx, queries=[e2e.worlds.as_map(4, qa), e2e.worlds.as_map(9, e2e.worlds.window_query(refs[1], 20, 16, False)[0][2]),
                                    e2e.worlds.as_map(17, pool[0][1]), e2e.worlds.as_map(30, [100.0, 20000.0])],
                   desc=['two joinable parts on reference 9', 'plain window of reference 4', 'plain', 'unalignable']))
    # two molecules with consecutive ids that both end without a record (two labels each), between alignable ones
    ws.append(dict(refs=[refs[1], refs[0], refs[2]],
                   queries=[e2e.worlds.as_map(4, pool[3][1]), e2e.worlds.as_map(9, [100.0, 20000.0]), e2e.worlds.as_map(10, [0.0, 31000.0]),
                            e2e.worlds.as_map(17, pool[1][1])],
                   desc=['plain', 'unalignable (two labels)', 'unalignable (two labels), next id', 'plain']))
    # two DIFFERENT molecules with the same number of labels and the same distance from first to last label (windows of the
    # lattice reference, whose spans are multiples of 1400 bp): anything that recognises a molecule by a summary of it confuses them
    lat = refs[1][2]
    pair = None
    for n_ in (14, 15, 16):
        spans = {}
        for s_ in range(3, len(lat) - n_ - 1):
            spans.setdefault(round(lat[s_ + n_ - 1] - lat[s_], 1), []).append(s_)
        cand = [(v[0], v[-1]) for v in spans.values() if len(v) >= 2 and v[-1] - v[0] >= n_]
        if cand:
            pair = (n_,) + cand[0]
            break
    if pair:
        n_, s1, s2 = pair
        ws.append(dict(refs=[refs[1], refs[0], refs[2]],
                       queries=[e2e.worlds.as_map(4, e2e.worlds.window_query(refs[1], s1, n_, False)[0][2]),
                                e2e.worlds.as_map(9, e2e.worlds.window_query(refs[1], s2, n_, False)[0][2]),
                                e2e.worlds.as_map(17, pool[1][1]), e2e.worlds.as_map(30, [100.0, 20000.0])],
                       desc=['window s%d of %d labels' % (s1, n_), 'another window (s%d) with the same label count and span' % s2, 'plain', 'unalignable']))
    return ws


class Variants(core.Layer):
    name = 'S2:variants'

    def __init__(self, tier, seed):
        self.worlds = base_worlds(tier, seed)
        self.n_general = len(self.worlds) - 4      # the last four base worlds are purpose-built (join order, crossed ids, adjacent pair-less, equal-span pair)
        self.variants = variants()
        self.bounds = dict(base_worlds=len(self.worlds), variants_per_world=len(self.variants), modes=list(MODES),
                           descriptions=[w['desc'] for w in self.worlds][:6])
        self.rule = '%d base worlds x %d variants x %d modes' % (len(self.worlds), len(self.variants), len(MODES))

    CHUNK = 5

    def nblocks(self):
        self.nchunks = (len(self.variants) + self.CHUNK - 1) // self.CHUNK
        return len(self.worlds) * self.nchunks

    def run_block(self, b, acc):
        wi = b // self.nchunks
        c = b % self.nchunks
        special = wi >= self.n_general
        for v in self.variants[c * self.CHUNK:(c + 1) * self.CHUNK]:
            if special and v[0] == 'subset-order' and len(v[1]) >= 3 and v[1] != sorted(v[1]) and v[1] != sorted(v[1], reverse=True):
                continue        # purpose-built worlds: subsets in ascending and descending order only
            for mode in (MODES if not special else ('joined', 'best')):
                acc.seq += 1
                check_case(wi, self.worlds[wi], v, mode, acc)

    def replay(self, case):
        wj = case['world_json']
        world = dict(refs=[tuple(m) for m in wj['refs']], queries=[tuple(m) for m in wj['queries']])
        _BASE.clear()
        return check_case(-1, world, (case['variant'][0], case['variant'][1]), case['mode'], None)


def layers(tier, seed):
    return [Variants(tier, seed), c17.Reader('reader:rows<=5', 5)]
