"""C19 - alignment comparison partitions keys; measures are bounded and reflexive (S1 on AlignmentComparer.compare)."""
import itertools

from mc import core

core.setup_repo_path()
from src.diagnostic.alignment_comparer import AlignmentComparer, AlignmentRowComparer, AlignmentRowComparisonResultType as T  # noqa: E402
from src.correlation.bionano_alignment import BionanoAlignment  # noqa: E402
from src.diagnostic.benchmark_alignment import BenchmarkAlignedPair as BP, BenchmarkAlignmentPosition as BPos  # noqa: E402

RULE = ("keys {(1,1),(1,2),(2,1)}; each side maps each key to 'absent' or one of a catalogue of pair lists (empty, single, run, shifted "
        "run, overlapping run, duplicated query label, duplicated pair, reversed strand); all ordered pairs of sides x both values of "
        "combineMultipleQuerySources; non-trivial = both sides share a key with non-identical non-empty pair lists; distinct by (A, B, flag)")
ASSUMPTIONS = ["identity is not required to be symmetric (difflib.SequenceMatcher is not; the property does not say so)"]

CAT = [[], [(1, 1)], [(1, 1), (2, 2), (3, 3)], [(2, 1), (3, 2), (4, 3)], [(2, 2), (3, 3), (4, 4)], [(1, 1), (2, 1), (3, 2)],
       [(1, 1), (1, 1), (2, 2)], [(3, 1), (2, 2), (1, 3)]]
KEYS = [(1, 1), (1, 2), (2, 1)]


DUP = 'dup'      # option: the SAME (query, reference) key occurs twice in one set (pair lists 2 and 4 of the catalogue)


def side(choice):
    out = []
    for (q, r), c in zip(KEYS, choice):
        if c is None:
            continue
        for ci in ((2, 4) if c == DUP else (c,)):
            out.append(BionanoAlignment(1, q, r, 0, 0, 0, 0, ci == 7, 1.0, '', 1, 1, [BP(BPos(a, 0), BPos(b, 0)) for a, b in CAT[ci]]))
    return out


@core.guarded(lambda ca, cb, flag, *a: dict(A=list(ca), B=list(cb), combineMultipleQuerySources=flag))
def check_case(ca, cb, flag, acc):
    cmpr = AlignmentComparer(AlignmentRowComparer(flag))
    A, B = side(ca), side(cb)
    ka = {k for k, c in zip(KEYS, ca) if c is not None}
    kb = {k for k, c in zip(KEYS, cb) if c is not None}
    found = []
    case = dict(A=list(ca), B=list(cb), combineMultipleQuerySources=flag)

    def bad(sym, detail=''):
        found.append((sym, detail, 'compare', {}))
    try:
        r = cmpr.compare(A, B)
        r2 = cmpr.compare(B, A)
    except Exception as e:
        bad('compare-exception', '%s: %s' % (type(e).__name__, e))
        r = None
    if r is not None:
        if r.overlapping + r.nonOverlapping + r.firstOnly + r.secondOnly != len(ka | kb):
            bad('counts-do-not-partition-keys', '%s+%s+%s+%s != %d' % (r.overlapping, r.nonOverlapping, r.firstOnly, r.secondOnly, len(ka | kb)))
        if r.firstOnly != len(ka - kb) or r.secondOnly != len(kb - ka):
            bad('only-counts-differ-from-set-differences', 'first %s second %s' % (r.firstOnly, r.secondOnly))
        keys_seen = sorted((x.queryId, x.referenceId) for x in r.rows)
        if (ka | kb) and keys_seen != sorted(ka | kb):
            bad('row-per-key', 'rows %s keys %s' % (keys_seen, sorted(ka | kb)))
        for row in r.rows:
            if not (0 <= row.identity <= 1 and 0 <= row.alignment1Coverage <= 1 and 0 <= row.alignment2Coverage <= 1):
                bad('measure-out-of-bounds', '%s %s %s' % (row.identity, row.alignment1Coverage, row.alignment2Coverage))
        for v in (r.avgOverlappingAlignment1Coverage, r.avgOverlappingAlignment2Coverage, r.avgOverlappingIdentity):
            if not 0 <= v <= 1:
                bad('average-out-of-bounds', str(v))
        r3 = cmpr.compare(A, B)          # third call on the same comparer: nothing may be remembered from the earlier ones
        if (r3.overlapping, r3.nonOverlapping, r3.firstOnly, r3.secondOnly, r3.avgOverlappingIdentity) != (
                r.overlapping, r.nonOverlapping, r.firstOnly, r.secondOnly, r.avgOverlappingIdentity):
            bad('repeated-compare-differs', '')
        if (r.firstOnly, r.secondOnly) != (r2.secondOnly, r2.firstOnly):
            bad('swap-counts', '')
        m1 = {(x.queryId, x.referenceId): x for x in r.rows if x.type == T.BOTH}
        m2 = {(x.queryId, x.referenceId): x for x in r2.rows if x.type == T.BOTH}
        if set(m1) != set(m2):
            bad('swap-keys', '')
        for k in m1:
            if k in m2 and (abs(m1[k].alignment1Coverage - m2[k].alignment2Coverage) > 1e-12 or
                            abs(m1[k].alignment2Coverage - m2[k].alignment1Coverage) > 1e-12):
                bad('swap-coverages', '%s' % (k,))
        if ca == cb and DUP not in ca:
            for row in r.rows:
                if row.alignment1.alignedPairs and not (row.identity == 1 and row.alignment1Coverage == 1 and row.alignment2Coverage == 1
                                                        and not row.alignment1ExclusivePairs and not row.alignment2ExclusivePairs):
                    bad('not-reflexive', '%s %s %s' % (row.identity, row.alignment1Coverage, row.alignment2Coverage))
    if acc is not None:
        acc.evals += 1
        acc.transitions += 3
        if r is not None:
            acc.state((r.overlapping, r.nonOverlapping, r.firstOnly, r.secondOnly, round(r.avgOverlappingIdentity, 6),
                       round(r.avgOverlappingAlignment1Coverage, 6)))
        if any(a is not None and b is not None and a != b and (a == DUP or b == DUP or (CAT[a] and CAT[b])) for a, b in zip(ca, cb)):
            acc.nontriv((ca, cb, flag))
        for f in found:
            acc.viol(f[0], case, f[1], f[2], f[3])
        acc.sample(case)
    return found


class Pairs(core.Layer):
    def __init__(self, name, opts, optional=False):
        self.name, self.optional = name, optional
        self.sides = list(itertools.product(opts, repeat=3))
        self.bounds = dict(keys=[list(k) for k in KEYS], options_per_key=[str(o) for o in opts], catalogue=CAT, flags=[False, True])
        self.rule = '%d x %d ordered pairs of alignment sets x 2 flags' % (len(self.sides), len(self.sides))

    def nblocks(self):
        return len(self.sides)

    def run_block(self, b, acc):
        ca = self.sides[b]
        for cb in self.sides:
            for flag in (False, True):
                acc.seq += 1
                check_case(ca, cb, flag, acc)

    def replay(self, case):
        return check_case(tuple(case['A']), tuple(case['B']), case['combineMultipleQuerySources'], None)


def layers(tier, seed):
    if tier == 'quick':
        return [Pairs('7-options', [None, 0, 1, 2, 5, 6, DUP])]
    return [Pairs('10-options', [None] + list(range(len(CAT))) + [DUP])]
