"""C19 - alignment comparison partitions keys; measures are bounded and reflexive (S1 on AlignmentComparer.compare, and the
compare_alignments command on generated files)."""
import itertools

from mc import core

core.setup_repo_path()
from src.diagnostic.alignment_comparer import AlignmentComparer, AlignmentRowComparer, AlignmentRowComparisonResultType as T  # noqa: E402
from src.correlation.bionano_alignment import BionanoAlignment  # noqa: E402
from src.diagnostic.benchmark_alignment import BenchmarkAlignedPair as BP, BenchmarkAlignmentPosition as BPos  # noqa: E402

RULE = ("keys {(1,1),(1,2),(2,1)}; each side maps each key to 'absent' or one of a catalogue of pair lists (empty, single, run, shifted "
        "run, overlapping run, duplicated query label, duplicated pair, reversed strand); all ordered pairs of sides x both values of "
        "combineMultipleQuerySources; non-trivial = both sides share a key with non-identical non-empty pair lists; distinct by (A, B, flag)")
ASSUMPTIONS = ["identity is not required to be symmetric (difflib.SequenceMatcher is not; the property does not say so)"]

CAT = [[], [(1, 1)], [(1, 1), (2, 2), (3, 3)], [(2, 1), (3, 2), (4, 3)], [(2, 2), (3, 3), (4, 4)], [(1, 1), (2, 1), (3, 2)],
       [(1, 1), (1, 1), (2, 2)], [(3, 1), (2, 2), (1, 3)]]
KEYS = [(1, 1), (1, 2), (2, 1)]


DUP = 'dup'      # option: the SAME (query, reference) key occurs twice in one set (pair lists 2 and 4 of the catalogue)


def side(choice):
    out = []
    for (q, r), c in zip(KEYS, choice):
        if c is None:
            continue
        for ci in ((2, 4) if c == DUP else (c,)):
            out.append(BionanoAlignment(1, q, r, 0, 0, 0, 0, ci == 7, 1.0, '', 1, 1, [BP(BPos(a, 0), BPos(b, 0)) for a, b in CAT[ci]]))
    return out


@core.guarded(lambda ca, cb, flag, *a: dict(A=list(ca), B=list(cb), combineMultipleQuerySources=flag))
def check_case(ca, cb, flag, acc):
    cmpr = AlignmentComparer(AlignmentRowComparer(flag))
    A, B = side(ca), side(cb)
    ka = {k for k, c in zip(KEYS, ca) if c is not None}
    kb = {k for k, c in zip(KEYS, cb) if c is not None}
    found = []
    case = dict(A=list(ca), B=list(cb), combineMultipleQuerySources=flag)

    def bad(sym, detail=''):
        found.append((sym, detail, 'compare', {}))
    try:
        r = cmpr.compare(A, B)
        r2 = cmpr.compare(B, A)
    except Exception as e:
        bad('compare-exception', '%s: %s' % (type(e).__name__, e))
        r = None
    if r is not None:
        if r.overlapping + r.nonOverlapping + r.firstOnly + r.secondOnly != len(ka | kb):
            bad('counts-do-not-partition-keys', '%s+%s+%s+%s != %d' % (r.overlapping, r.nonOverlapping, r.firstOnly, r.secondOnly, len(ka | kb)))
        if r.firstOnly != len(ka - kb) or r.secondOnly != len(kb - ka):
            bad('only-counts-differ-from-set-differences', 'first %s second %s' % (r.firstOnly, r.secondOnly))
        keys_seen = sorted((x.queryId, x.referenceId) for x in r.rows)
        if (ka | kb) and keys_seen != sorted(ka | kb):
            bad('row-per-key', 'rows %s keys %s' % (keys_seen, sorted(ka | kb)))
        for row in r.rows:
            if not (0 <= row.identity <= 1 and 0 <= row.alignment1Coverage <= 1 and 0 <= row.alignment2Coverage <= 1):
                bad('measure-out-of-bounds', '%s %s %s' % (row.identity, row.alignment1Coverage, row.alignment2Coverage))
        for v in (r.avgOverlappingAlignment1Coverage, r.avgOverlappingAlignment2Coverage, r.avgOverlappingIdentity):
            if not 0 <= v <= 1:
                bad('average-out-of-bounds', str(v))
        r3 = cmpr.compare(A, B)          # third call on the same comparer: nothing may be remembered from the earlier ones
        if (r3.overlapping, r3.nonOverlapping, r3.firstOnly, r3.secondOnly, r3.avgOverlappingIdentity) != (
                r.overlapping, r.nonOverlapping, r.firstOnly, r.secondOnly, r.avgOverlappingIdentity):
            bad('repeated-compare-differs', '')
        if (r.firstOnly, r.secondOnly) != (r2.secondOnly, r2.firstOnly):
            bad('swap-counts', '')
        m1 = {(x.queryId, x.referenceId): x for x in r.rows if x.type == T.BOTH}
        m2 = {(x.queryId, x.referenceId): x for x in r2.rows if x.type == T.BOTH}
        if set(m1) != set(m2):
            bad('swap-keys', '')
        for k in m1:
            if k in m2 and (abs(m1[k].alignment1Coverage - m2[k].alignment2Coverage) > 1e-12 or
                            abs(m1[k].alignment2Coverage - m2[k].alignment1Coverage) > 1e-12):
                bad('swap-coverages', '%s' % (k,))
        if ca == cb and DUP not in ca:
            for row in r.rows:
                if row.alignment1.alignedPairs and not (row.identity == 1 and row.alignment1Coverage == 1 and row.alignment2Coverage == 1
                                                        and not row.alignment1ExclusivePairs and not row.alignment2ExclusivePairs):
                    bad('not-reflexive', '%s %s %s' % (row.identity, row.alignment1Coverage, row.alignment2Coverage))
    if acc is not None:
        acc.evals += 1
        acc.transitions += 3
        if r is not None:
            acc.state((r.overlapping, r.nonOverlapping, r.firstOnly, r.secondOnly, round(r.avgOverlappingIdentity, 6),
                       round(r.avgOverlappingAlignment1Coverage, 6)))
        if any(a is not None and b is not None and a != b and (a == DUP or b == DUP or (CAT[a] and CAT[b])) for a, b in zip(ca, cb)):
            acc.nontriv((ca, cb, flag))
        for f in found:
            acc.viol(f[0], case, f[1], f[2], f[3])
        acc.sample(case)
    return found


# ------------------------------------------------------------------------------------------------
# the comparison command itself: two XMAP files written in COMA's layout (seven header lines), reference and query CMAPs, the
# counts read from the report it writes

XHEAD = ("# hostname=x\n# coma --x y\n# XMAP File Version:\t0.2\n# Reference Maps From:\tr.cmap\n# Query Maps From:\tq.cmap\n"
         "#h\tXmapEntryID\tQryContigID\tRefContigID\tQryStartPos\tQryEndPos\tRefStartPos\tRefEndPos\tOrientation\tConfidence\tHitEnum\tQryLen\tRefLen\t"
         "AlignedRest\tLabelChannel\tAlignment\n#f\tint\tint\tint\tfloat\tfloat\tfloat\tfloat\tstring\tfloat\tstring\tfloat\tfloat\tstring\tint\tstring\n")
FILE_OPTS = [None, 1, 2, 7]


def _xmap_text(choice):
    out = [XHEAD]
    n = 0
    for (q, r), c in zip(KEYS, choice):
        if c is None:
            continue
        n += 1
        out.append('%d\t%d\t%d\t0.0\t1.0\t0.0\t1.0\t%s\t10.00\t%dM\t1.0\t1.0\tFalse\t1\t%s\n' % (
            n, q, r, '-' if c == 7 else '+', len(CAT[c]), ''.join('(%d,%d)' % p for p in CAT[c])))
    return ''.join(out)


@core.guarded(lambda ca, cb, *a: dict(kind='files', A=list(ca), B=list(cb)))
def check_files(ca, cb, acc):
    import os
    from mc import cmaptext
    from src import compare_alignments as cmpmod
    d = os.path.join(core.scratch_dir(), 'c19-%d' % os.getpid())
    os.makedirs(d, exist_ok=True)
    paths = {k: os.path.join(d, k) for k in ('a.xmap', 'b.xmap', 'r.cmap', 'q.cmap', 'out.txt')}
    maps = [(1, 900.0, [100.0, 200.0, 300.0, 400.0]), (2, 950.0, [150.0, 250.0, 350.0, 450.0])]
    for k in ('r.cmap', 'q.cmap'):
        with open(paths[k], 'w') as f:
            f.write(cmaptext.text(maps))
    with open(paths['a.xmap'], 'w') as f:
        f.write(_xmap_text(ca))
    with open(paths['b.xmap'], 'w') as f:
        f.write(_xmap_text(cb))
    found = []
    case = dict(kind='files', A=list(ca), B=list(cb))
    counts = None
    try:
        args = cmpmod.Args.parse([paths['a.xmap'], paths['b.xmap'], '-r', paths['r.cmap'], '-q', paths['q.cmap'], '-o', paths['out.txt']])
        try:
            cmpmod.Program(args).run()
        finally:
            for fobj in list(args.alignmentFiles) + [args.referenceFile, args.queryFile, args.outputFile]:
                fobj.close()
        txt = open(paths['out.txt']).read()
        counts = {l.split('\t')[0][2:]: l.rstrip('\n').split('\t')[1] for l in txt.splitlines() if l.startswith('# ') and '\t' in l and len(l.split('\t')) == 2}
        rows = [l.split('\t') for l in txt.splitlines() if l and not l.startswith('#')]
    except Exception as e:
        found.append(('compare-exception', '%s: %s' % (type(e).__name__, str(e)[:200]), 'files', {}))
    ka = {k for k, c in zip(KEYS, ca) if c is not None}
    kb = {k for k, c in zip(KEYS, cb) if c is not None}
    if counts is not None:
        if not (ka | kb):
            pass        # two empty sets: nothing is written
        else:
            try:
                o, n_, f1, f2 = (int(counts[k]) for k in ('Overlapping', 'NonOverlapping', 'FirstOnly', 'SecondOnly'))
            except Exception:
                o = n_ = f1 = f2 = None
                found.append(('report-unreadable', str(counts), 'files', {}))
            if o is not None:
                if o + n_ + f1 + f2 != len(ka | kb):
                    found.append(('counts-do-not-partition-keys', '%s+%s+%s+%s != %d keys' % (o, n_, f1, f2, len(ka | kb)), 'files', {}))
                if (f1, f2) != (len(ka - kb), len(kb - ka)):
                    found.append(('only-counts-differ-from-set-differences', 'first %s second %s, expected %s %s' % (f1, f2, len(ka - kb), len(kb - ka)), 'files', {}))
                if ca == cb:
                    for r in rows:
                        if 'BOTH' in r:
                            t = r.index('BOTH')       # the report's rows start with a running number
                            pairs_listed = any(x.strip() for x in r[t + 7:t + 9])
                            if pairs_listed and r[t + 1:t + 4] != ['1.000', '1.000', '1.000']:
                                found.append(('not-reflexive', 'key (%s,%s): identity/coverages %s' % (r[t - 2], r[t - 1], r[t + 1:t + 4]), 'files', {}))
    if acc is not None:
        acc.evals += 1
        acc.transitions += 3
        acc.state(('f', tuple(sorted((counts or {}).items()))))
        if ka and kb:
            acc.nontriv(('f', ca, cb))
        for f in found:
            acc.viol(f[0], case, f[1], f[2], f[3])
        acc.sample(case)
    return found


class Files(core.Layer):
    name = 'files:compare_alignments'
    optional = False

    def __init__(self):
        self.sides = list(itertools.product(FILE_OPTS, repeat=3))
        self.bounds = dict(keys=[list(k) for k in KEYS], options_per_key=[str(o) for o in FILE_OPTS], header_lines=7)
        self.rule = '%d x %d ordered pairs of XMAP files through compare_alignments.Program, counts read from the report' % (len(self.sides), len(self.sides))

    def nblocks(self):
        return len(self.sides)

    def run_block(self, b, acc):
        ca = self.sides[b]
        for cb in self.sides:
            acc.seq += 1
            check_files(ca, cb, acc)

    def replay(self, case):
        return check_files(tuple(case['A']), tuple(case['B']), None)


class Pairs(core.Layer):
    def __init__(self, name, opts, optional=False):
        self.name, self.optional = name, optional
        self.sides = list(itertools.product(opts, repeat=3))
        self.bounds = dict(keys=[list(k) for k in KEYS], options_per_key=[str(o) for o in opts], catalogue=CAT, flags=[False, True])
        self.rule = '%d x %d ordered pairs of alignment sets x 2 flags' % (len(self.sides), len(self.sides))

    def nblocks(self):
        return len(self.sides)

    def run_block(self, b, acc):
        ca = self.sides[b]
        for cb in self.sides:
            for flag in (False, True):
                acc.seq += 1
                check_case(ca, cb, flag, acc)

    def replay(self, case):
        return check_case(tuple(case['A']), tuple(case['B']), case['combineMultipleQuerySources'], None)


def layers(tier, seed):
    if tier == 'quick':
        return [Pairs('7-options', [None, 0, 1, 2, 5, 6, DUP]), Files()]
    return [Pairs('10-options', [None] + list(range(len(CAT))) + [DUP]), Files()]
