"""Per-property metadata used to generate MANIFEST.json (python -m mc.registry)."""
import json
import os

from mc.core import VERIF

BASELINE_OFF = ("cd /repo && env -u COMA_VERIF /venv/bin/python -m pytest -ra -q -p no:cacheprovider --timeout=900 "
                "--continue-on-collection-errors")

TRUST = ("CPython 3.12 / numpy / scipy / pandas / dill as installed; the reference models and independent parsers under "
         "/verif/mc (kept small, exercised against seeded property-breaking changes); verdict = no execution inside the "
         "stated finite space violates the property (small-scope bound, see DESIGN.md section 8)")

P = {
    'C01': dict(shape='S1+S2', ref='4/C01',
                technique='explicit-state bounded exhaustive exploration of the real aligner (all label subsets x seed-peak lists x strands on a lattice) and of Program.run over all worlds with <=2 edits x 4 modes; oracle = matching validity recomputed from labels; plus the join step alone (align / getUnalignedFragments / align / AlignmentResults.resolve on two-part lattice molecules), runs with -ms 3000 and with diagnostic plots',
                text='every Aligner.align result over a complete lattice of label geometries and seed-peak lists, and every record of every file of every world with a bounded number of edits, is checked to be a one-to-one collinear matching of existing labels'),
    'C02': dict(shape='S1+S2', ref='4/C02',
                technique='deviation-bounded exhaustive exploration of Program.run over a world grammar (windows x strands x offsets x edit scripts x modes); oracle = header fields recomputed from CMAP text by an independent parser; plus rows of the real aligner for whole molecules and the four kinds of second-pass fragment maps written by the real writer (S1)',
                text='every record of every output file of every enumerated world has its header fields recomputed from the input CMAP text and compared'),
    'C03': dict(shape='S1+S2', ref='4/C03',
                technique='exhaustive enumeration of all valid matchings on label grids (both strands, all segment splits) through AlignmentResultRow.cigarString, plus every end-to-end record; oracle = replay decoder',
                text='HitEnum of every valid matching on a bounded grid is decoded back and compared with the pairs'),
    'C04': dict(shape='S1+S2', ref='4/C04',
                technique='bounded exhaustive exploration of Aligner.align over jittered lattices x scoring parameter grid and of Program.run over worlds x CLI score parameters; oracle = score recomputed from raw maps, peak and parameters',
                text='confidence and segment scores of every explored candidate are recomputed from raw coordinates and parameters'),
    'C05': dict(shape='S2', ref='4/C05',
                technique='exhaustive exploration of Program.run over multi-query worlds x peaksCount x modes with dispatcher observation; oracle = argmax over observed candidates, multiplicity and order; tight-reference worlds; each command repeated into the same output path',
                text='for every enumerated multi-query world the records are compared with the candidates observed through the extension dispatcher'),
    'C06': dict(shape='S2', ref='4/C06',
                technique='exhaustive enumeration of every interior window (15-45 labels) of catalogue references x strands x offsets x trailing x modes through Program.run; oracle = planted truth; output paths without / with another extension; coordinate offsets beyond the reference length',
                text='every window of every catalogue reference is planted and must be recovered exactly'),
    'C07': dict(shape='S2', ref='4/C07',
                technique='exhaustive exploration of a degenerate-world catalogue x parameter deviations (<=2) x modes through Program.run and the coma CLI; oracle = no abort, well-formed files, read-back, non-interference; two real CLI runs per world in rotating shell shapes (output path spellings, CMAP through a pipe, XMAP on standard output)',
                text='every degenerate world under every bounded parameter deviation must terminate normally and produce readable files'),
    'C08': dict(shape='S2', ref='4/C08',
                technique='exhaustive exploration of join-provoking worlds x maxDifference x 4 modes on identical inputs; oracle = cross-file equalities and join justification; plus the join step alone on two-part lattice molecules (S1)',
                text='the four output modes are run on each enumerated world and compared record by record'),
    'C09': dict(shape='S3', ref='4/C09',
                technique='schedule enumeration: controlled process pool substituted at the p_tqdm Pool seam, all task-to-worker assignments (set partitions) for both pool phases, perturbed in-block orders, completion orders, hash seeds; oracle = byte equality of files; bound to the real pool by a conformance probe and real coma -c k runs; twin-reference worlds (exact seed ties), a 20-molecule world, repetition into the same path, XMAP on standard output, real CLI with -c 1..16',
                text='every schedule up to the worker/task bound is executed with real forked workers and the output bytes compared'),
    'C10': dict(shape='S1+S2', ref='4/C10',
                technique='exhaustive enumeration of query subsets/orderings, reference orders, id filters and CMAP row permutations through CmapReader and Program.run; oracle = per-query record equality with the full run',
                text='every subset, ordering and filter of bounded base worlds is run and each query record compared'),
    'C11': dict(shape='S1+S2', ref='4/C11',
                technique='bounded exhaustive exploration of Aligner.align on a symmetric lattice vs its mirror, and of Program.run on lattice-commensurate worlds vs mirrored queries; oracle = mirror map of the record',
                text='every lattice case is compared with its mirror image computed on bit-identical arrays'),
    'C12': dict(shape='S1', ref='4/C12',
                technique='exhaustive enumeration of all label multisets on a unit lattice x seed offsets x strands x shifts x maxDistance through AlignerEngine.align; oracle = partition/order/distance/nearest-partner invariants',
                text='every label geometry below the lattice bound is fed to the real pairing engine'),
    'C13': dict(shape='S1', ref='4/C13',
                technique='exhaustive enumeration of all score sequences up to length 8 over an 8-symbol alphabet x 16 threshold pairs through AlignmentSegmentsFactory.getSegments; oracle = reference scanner + declarative clauses; dyadic alphabet; two-call sequences on one factory',
                text='every score sequence below the length bound is cut by the real factory and compared with a reference scanner written from the statement'),
    'C14': dict(shape='S1', ref='4/C14',
                technique='exhaustive enumeration of all subsets (<=7) of a pool of lattice segments x strands x scorer variants through SegmentChainer.chain; oracle = brute force over all order-respecting subsets; two-call sequences on one chainer',
                text='every subset of the segment pool is chained by the real chainer and compared with brute-force optimum'),
    'C15': dict(shape='S1', ref='4/C15',
                technique='exhaustive enumeration of peak ladders on lattice worlds through the real engine+scorer+factory+resolver; oracle = sub-run/disjointness/retention invariants on every final state and every pair step; scorer configurations with join multiplier 0 / 0.5 and unmatched penalty 0; collision, duplication and base-pair-scale worlds',
                text='every ladder of nearby seed peaks on each lattice world produces real segment lists that are resolved and checked'),
    'C16': dict(shape='S1+S2', ref='4/C16',
                technique='exhaustive enumeration of label multisets x resolutions x windows, bit vectors x radii, bins x resolutions, peak-height lists x counts; oracle = bin membership, dilation, centre, top-N; two-call sequences on one SequenceGenerator; Program.run over multi-reference, tight-reference and tandem-array worlds x peaksCount with dispatcher observation (refined seeds = best-scoring peaks, refined peak at the planted offset)',
                text='every small input of the vectorisation, blur, conversion and peak selection functions is compared with a direct definition'),
    'C17': dict(shape='S1', ref='4/C17',
                technique='exhaustive enumeration of molecule sets x all row permutations x all id filters through CmapReader, all label lists through OpticalMap.trim; oracle = independent text parse; four file layouts; two-call sequences of one reader over named files',
                text='every row permutation and id filter of small CMAP files is read by the real reader and compared with an independent parse'),
    'C18': dict(shape='S1+S2', ref='4/C18',
                technique='exhaustive enumeration of synthetic result sets (0-3 records x strands x passes) through XmapReader.writeAlignments/readAlignments plus every file of the end-to-end worlds; oracle = field-by-field equality; the reader object held by the Program itself; rewrite-and-reread sequences on one path; XMAP on standard output',
                text='every enumerated result set is written and read back with both pair parsers'),
    'C19': dict(shape='S1', ref='4/C19',
                technique='exhaustive enumeration of all pairs of alignment sets over 3 keys x a pair-list catalogue x both flags through AlignmentComparer.compare; oracle = counting identities, bounds, reflexivity, swap',
                text='every pair of alignment sets below the bound is compared by the real comparer'),
    'C20': dict(shape='S1', ref='4/C20',
                technique='exhaustive enumeration of all sorted call lists (<=5) over a blur-boundary lattice through cluster_indels/write_indel_file and of small alignments x breakpoints through both indel finders; oracle = conservation, purity, cover, self-consistency; molecule_indels.run end to end on generated files (query ids that are reference ids too); runs with several alignments and join points',
                text='every sorted call list below the bound is clustered by the real code and conservation is checked'),
}


def build():
    props = [json.loads(l) for l in open(os.path.join(VERIF, 'properties.jsonl'))]
    checks, na = [], []
    for p in props:
        pid = p['id']
        if os.path.exists(os.path.join(VERIF, 'mc', 'props', pid.lower() + '.py')) and pid in P:
            m = P[pid]
            checks.append(dict(
                property_id=pid,
                quick_cmd='./check %s --tier quick' % pid,
                thorough_cmd='./check %s --tier thorough' % pid,
                evidence_file='/verif/evidence/%s.json' % pid,
                replay_cmd_template='./check %s --replay {path}' % pid,
                engine='mc',
                level_claimed=dict(category='model_checking',
                                   text='Bounded exhaustive exploration on the real code (%s): %s. Exit 0 means no execution in the '
                                        'stated finite space violates the property.' % (m['shape'], m['text']),
                                   design_ref='DESIGN.md section ' + m['ref']),
                level_note=TRUST,
                technique=m['technique']))
        else:
            na.append(dict(property_id=pid, reason='check not built yet (work in progress; planned per DESIGN.md section 4)'))
    man = dict(
        version=1,
        setup_cmd='cd /verif && /venv/bin/python -m mc.selftest',
        hooks=dict(guard='COMA_VERIF', enable='no hooks are needed: checks import /repo sources directly (COMA_VERIF=1 is exported but unused)',
                   baseline_off_cmd=BASELINE_OFF, source_commits=[], add_only=True),
        engines=[dict(name='mc', path='/verif/mc', serves_properties=[c['property_id'] for c in checks],
                      kind_free_text='hand-written explicit-state / stateless explorer in Python: enumerates finite spaces of inputs, '
                                     'operation sequences, worlds and pool schedules and executes each on the real COMA code')],
        checks=checks,
        notes='Entry point ./check <ID> [--tier quick|thorough] [--replay file]; VERIF_SEED selects optional extra slices only; '
              'known findings in /verif/known_findings.json; design in /verif/DESIGN.md.',
        not_applicable=na)
    with open(os.path.join(VERIF, 'MANIFEST.json'), 'w') as f:
        json.dump(man, f, indent=1)
    return man


if __name__ == '__main__':
    m = build()
    print('claimed', [c['property_id'] for c in m['checks']], 'not built', [n['property_id'] for n in m['not_applicable']])
