"""./check <ID> [--tier quick|thorough] [--replay <file>]"""
import argparse
import json
import os
import sys

from mc import core


def main(argv=None):
    ap = argparse.ArgumentParser(prog='check')
    ap.add_argument('property')
    ap.add_argument('--tier', default=None, choices=['quick', 'thorough'])
    ap.add_argument('--replay', default=None)
    ap.add_argument('--quiet', action='store_true')
    a = ap.parse_args(argv)
    pid = a.property.upper()
    if a.replay:
        body, found = core.replay_file(a.replay)
        symptoms = sorted({f[0] for f in found})
        print('REPLAY-SYMPTOMS ' + json.dumps(symptoms))
        if not a.quiet:
            print('replay of %s layer %s: expected symptom %r' % (body['property'], body['layer'], body['symptom']))
            for f in found:
                print('  observed: %s | %s' % (f[0], str(f[1])[:1000]))
            if body['symptom'] in symptoms:
                print('VIOLATION property=%s replay=%s' % (pid, os.path.abspath(a.replay)))
        return 1 if symptoms else 0
    tier = os.environ.get('VERIF_TIER') or a.tier or 'quick'
    if tier not in ('quick', 'thorough'):
        tier = 'quick'
    seed = int(os.environ.get('VERIF_SEED', '0') or 0)
    return core.run_property(pid, tier, seed)


def _main():
    try:
        return main()
    except SystemExit:
        raise
    except BaseException:        # a failure of the harness itself is never a verdict: exit 3, no VIOLATION line
        import traceback
        print('HARNESS-ERROR %s' % traceback.format_exc()[-3000:], flush=True)
        return 3


if __name__ == '__main__':
    sys.exit(_main())
