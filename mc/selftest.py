"""setup_cmd: byte-compile the harness and self-test the explorer (shard independence, merge determinism)."""
import compileall
import os
import sys

from mc import core


class _Toy(core.Layer):
    name = 'toy'

    def nblocks(self):
        return 23

    def run_block(self, b, acc):
        for i in range(50):
            acc.seq += 1
            acc.evals += 1
            acc.transitions += 2
            acc.state((b * i) % 97)
            if (b + i) % 7 == 0:
                acc.nontriv((b, i))
            acc.classes['odd' if i % 2 else 'even'] += 1
            if b == 11 and i in (13, 40):
                acc.viol('toy-symptom', dict(b=b, i=i), 'detail')
            acc.sample(dict(b=b, i=i))


def main():
    ok = compileall.compile_dir(os.path.join(core.VERIF, 'mc'), quiet=1, force=False)
    if not ok:
        print('selftest: byte-compilation failed')
        return 1
    outs = []
    for procs in (1, 5):
        core.NPROC = procs
        core._LAYERS = [_Toy()]
        m = core.run_layer(0, core._LAYERS[0], None)
        outs.append((m['evals'], m['transitions'], m['states'], m['nontrivial'], sorted(m['classes'].items()),
                     [(v['block'], v['seq']) for v in m['violations']], m['first'], m['last'], m['completed']))
    if outs[0] != outs[1]:
        print('selftest: merged result depends on shard count', outs)
        return 1
    if outs[0][5] != [(11, 14), (11, 41)] or outs[0][0] != 23 * 50:
        print('selftest: unexpected merge result', outs[0])
        return 1
    for tool in ('/venv/bin/python',):
        if not os.path.exists(tool):
            print('selftest: missing', tool)
            return 1
    import numpy, scipy, pandas, dill, p_tqdm  # noqa: F401  (what the checks need; all offline)
    print('selftest ok: explorer merge independent of shard count; %d procs available' % (os.cpu_count() or 1))
    return 0


if __name__ == '__main__':
    sys.exit(main())
