"""In-process pipeline driver: writes the CMAP files, builds Args exactly as the CLI would, runs the real Program.

The process pool behind p_imap is replaced (at the seam p_tqdm.p_tqdm.Pool) by a sequential stand-in with the measured
semantics of the real pool for one worker: the mapped function is dill-pickled per map call and un-pickled afresh for every
task, results are dill round-tripped, tasks run in submission order.  C09 establishes that output is schedule independent;
every S2 check additionally re-runs a slice of its worlds through the real CLI (bind_cli).
"""
import gc
import os
import subprocess
import sys

import dill

from mc import core, cmaptext

core.setup_repo_path()

import p_tqdm.p_tqdm as _ptq  # noqa: E402
from src.args import Args  # noqa: E402
from src.program import Program  # noqa: E402

MAP_CALLS = []          # one entry per pool map call of the current run: number of tasks


class StandInPool:
    def __init__(self, nodes=None, *a, **k):
        self.nodes = nodes

    def _run(self, function, iterables):
        blob = dill.dumps(function)
        tasks = list(zip(*iterables))
        MAP_CALLS.append(len(tasks))
        from mc import sink
        sink.EVENTS.append(('map', len(MAP_CALLS), len(tasks)))
        for args in tasks:
            yield dill.loads(dill.dumps(dill.loads(blob)(*args)))

    def imap(self, function, *iterables, **kw):
        return self._run(function, iterables)

    def uimap(self, function, *iterables, **kw):
        return self._run(function, iterables)

    def map(self, function, *iterables, **kw):
        return list(self._run(function, iterables))

    def clear(self):
        pass


class FastPool(StandInPool):
    """No pickling at all (plain in-process map).  Only used where the design says so (never for verdicts on its own)."""

    def _run(self, function, iterables):
        tasks = list(zip(*iterables))
        MAP_CALLS.append(len(tasks))
        for args in tasks:
            yield function(*args)


def install_pool(cls=StandInPool):
    assert hasattr(_ptq, 'Pool'), 'pool seam p_tqdm.p_tqdm.Pool not found'
    _ptq.Pool = cls


install_pool()


class Observation:
    __slots__ = ('error', 'files', 'result', 'events', 'map_calls', 'paths', 'extra', 'program')

    def __init__(self):
        self.error = None
        self.files = {}
        self.result = None
        self.events = []
        self.map_calls = []
        self.paths = {}
        self.extra = None
        self.program = None       # the Program object itself; only inside the run's own process (in_child)

    def __getstate__(self):
        return {k: getattr(self, k) for k in self.__slots__ if k != 'program'}

    def __setstate__(self, st):
        self.program = None
        for k, v in st.items():
            setattr(self, k, v)


def write_world(d, world):
    rp, qp = os.path.join(d, 'r.cmap'), os.path.join(d, 'q.cmap')
    with open(rp, 'w') as f:
        f.write(world.get('ref_text') or cmaptext.text([tuple(m) for m in world['refs']], world.get('extra_column', False)))
    with open(qp, 'w') as f:
        f.write(world.get('qry_text') or cmaptext.text([tuple(m) for m in world['queries']], world.get('extra_column', False)))
    return rp, qp


def cli_args(rp, qp, op, mode, extra=(), cpus='3'):
    # in-process runs ask for 3 workers so that the pool code path is taken (the stand-in pool ignores the number); a tree that
    # special-cases `-c 1` must not make every S2 check explore only the special case
    return ['-r', rp, '-q', qp, '-o', op, '-pb', '-c', str(cpus), '-oM', mode] + [str(x) for x in extra]


def run_world(world, mode=None, extra=None, extensions=None, directory=None, keep_result=False, cpus='3', in_child=None,
              isolate=True, out_name='o.xmap'):
    """Run the real Program on one world and return an Observation.

    Every run happens in its own forked child (isolate=True): a real `coma` invocation is a fresh process, so state that COMA keeps
    at module or class level must not leak from one run of the harness into the next (it may leak from query to query INSIDE a run -
    that is the single-worker behaviour the stand-in pool models).  Objects that do not pickle (the returned rows, the 'row' events
    of sink.Rows) stay in the child; `in_child(obs)` is evaluated there and its picklable result is returned as obs.extra."""
    if isolate:
        st, obs = core.run_isolated(_run_world_child, world, mode, extra, extensions, directory, keep_result, cpus, in_child, out_name)
        if st != 'ok':
            raise RuntimeError('isolated run failed inside the harness: %s' % obs)
        return obs
    return _run_world(world, mode, extra, extensions, directory, keep_result, cpus, out_name)


def _run_world_child(world, mode, extra, extensions, directory, keep_result, cpus, in_child, out_name='o.xmap'):
    obs = _run_world(world, mode, extra, extensions, directory, keep_result or in_child is not None, cpus, out_name)
    if in_child is not None:
        obs.extra = in_child(obs)
    obs.result = None
    obs.program = None
    obs.events = [ev for ev in obs.events if ev[0] != 'row']
    return obs


def output_names(out_name):
    """main and additional file names for an -o value: <root>_1<ext> / <root>_2<ext> (os.path.splitext of the whole path)"""
    root, ext = os.path.splitext(out_name)
    return (('main', out_name), ('_1', root + '_1' + ext), ('_2', root + '_2' + ext))


def _run_world(world, mode=None, extra=None, extensions=None, directory=None, keep_result=False, cpus='3', out_name='o.xmap'):
    """Run the real Program on one world in this process; returns an Observation."""
    from mc import sink
    d = directory or core.scratch_dir()
    mode = mode or world.get('mode', 'best')
    extra = list(world.get('args', [])) if extra is None else list(extra)
    rp, qp = write_world(d, world)
    op = os.path.join(d, out_name)
    os.makedirs(os.path.dirname(op), exist_ok=True)
    for k, name in output_names(out_name):
        try:
            os.remove(os.path.join(d, name))
        except OSError:
            pass
    obs = Observation()
    del MAP_CALLS[:]
    del sink.EVENTS[:]
    args = None
    try:
        args = Args.parse(cli_args(rp, qp, op, mode, extra, cpus))
        prog = Program(args, list(extensions) if extensions else None)
        res = prog.run()
        if keep_result:
            obs.result = res
            obs.program = prog
        del prog
    except SystemExit as e:
        obs.error = 'SystemExit(%s)' % (e.code,)
    except BaseException as e:   # the verdict for C07; an "aborted" class everywhere else
        import traceback
        tb = traceback.extract_tb(e.__traceback__)
        where = next(('%s:%d' % (os.path.relpath(fr.filename, core.REPO), fr.lineno) for fr in reversed(tb)
                      if fr.filename.startswith(core.REPO)), '?')
        obs.error = '%s: %s @ %s' % (type(e).__name__, str(e)[:200], where)
    finally:
        if args is not None:
            for fobj in (args.referenceFile, args.queryFile, args.outputFile):
                try:
                    if fobj is not sys.stdout:
                        fobj.close()
                except Exception:
                    pass
    gc.collect(0)
    for k, name in output_names(out_name):
        p = os.path.join(d, name)
        if os.path.exists(p):
            with open(p) as f:
                obs.files[k] = f.read()
            obs.paths[k] = p
    obs.events = list(sink.EVENTS)
    obs.map_calls = list(MAP_CALLS)
    return obs


def run_cli(world, mode, extra=(), cpus=1, directory=None, hashseed='0', timeout=300, keep_outputs=False, out_name='c.xmap',
            pipe=None, to_stdout=False):
    # pipe: 'query' / 'reference' = that CMAP arrives on standard input (`-q /dev/stdin`, fed through a pipe: not seekable);
    # to_stdout: no -o, the XMAP is what the process prints on standard output
    """The real entry point in a subprocess (real pathos pool).  Returns (returncode, stderr, files)."""
    d = directory or core.scratch_dir()
    rp, qp = write_world(d, world)
    op = os.path.join(d, out_name)
    os.makedirs(os.path.dirname(op), exist_ok=True)
    for k, name in output_names(out_name):
        if keep_outputs:        # a repetition of the same command: the files of the earlier run are still in place
            break
        try:
            os.remove(os.path.join(d, name))
        except OSError:
            pass
    env = dict(os.environ, PYTHONPATH=core.REPO, PYTHONHASHSEED=str(hashseed))
    stdin_path = None
    if pipe == 'query':
        stdin_path, qp = qp, '/dev/stdin'
    elif pipe == 'reference':
        stdin_path, rp = rp, '/dev/stdin'
    cmd = [core.PYTHON, '-c', 'import sys; sys.path.insert(0, %r); from src.program import main; main()' % core.REPO] + \
        ['-r', rp, '-q', qp] + ([] if to_stdout else ['-o', op]) + ['-pb', '-c', str(cpus), '-oM', mode] + [str(x) for x in extra]
    out = ''
    try:
        if stdin_path is not None:
            feeder = subprocess.Popen(['cat', stdin_path], stdout=subprocess.PIPE)
            p = subprocess.run(cmd, env=env, stdin=feeder.stdout, capture_output=True, text=True, timeout=timeout, cwd=d)
            feeder.stdout.close()
            feeder.wait()
        else:
            p = subprocess.run(cmd, env=env, stdin=subprocess.DEVNULL, capture_output=True, text=True, timeout=timeout, cwd=d)
        rc, err, out = p.returncode, p.stderr, p.stdout
    except subprocess.TimeoutExpired:
        rc, err = -9, 'timeout'
    files = {}
    for k, name in output_names(out_name):
        p_ = os.path.join(d, name)
        if os.path.exists(p_):
            with open(p_) as f:
                files[k] = f.read()
    if to_stdout:
        files['main'] = out
    return rc, err, files


def strip_echo(txt):
    """drop the header lines that echo arguments / paths / host (they differ between in-process and CLI runs)"""
    return [l for l in txt.split('\n') if not (l.startswith('# coma ') or l.startswith('# hostname=')
                                               or l.startswith('# Reference Maps From:') or l.startswith('# Query Maps From:'))]
