"""Enumeration helpers for the Aligner.align lattice (shared by C01-A, C04-A, C11-A)."""
import itertools


def ref_sets(nr, step):
    return [[i * step for i in range(nr) if m >> i & 1] for m in range(1, 1 << nr)]


def qry_sets(nq, step):
    """subsets of lattice(nq, step) containing 0 (what trim produces)"""
    return [[i * step for i in range(nq) if m >> i & 1] for m in range(1, 1 << nq, 2)]


def peak_lists(nr, step, kmax, both_orders=True):
    grid = list(range(-step, step * (nr - 1) + 1, step // 2))
    out = []
    for k in range(1, kmax + 1):
        for c in itertools.combinations(grid, k):
            out.append(list(c))
            if both_orders and k > 1:
                out.append(list(c[::-1]))
    return out


class RecordingResolver:
    """Delegates to COMA's real resolver; records what reached it (harness-side observation only)."""

    def __init__(self, real):
        self.real = real
        self.last_in = 0
        self.segmentChainer = real.segmentChainer

    def resolveConflicts(self, segments):
        self.last_in = sum(1 for s in segments if not s.empty)
        return self.real.resolveConflicts(segments)


def ladder_cases(full, kmax=3):
    """(reference, query, peak list) for every indel-ladder world and every three-segment collision world (mc.props.c15.ladder_worlds,
    collision_worlds) and every list of 1..kmax distinct peaks
    from the world's five-point grid, ascending and descending"""
    from mc.props import c15
    dups = list(c15.dup_worlds()) + list(c15.shared_label_dup_worlds())
    # the small base worlds with every ladder of two or three neighbouring peaks over the whole diagonal range (step 5, strides 1..3)
    for name, ref, q in c15.base_worlds():
        lo = -q[-1] // 2 // 5 * 5 - 10
        grid = list(range(lo, ref[-1] + 10, 5))
        for i0 in range(len(grid)):
            for strides in ((1,), (2,), (3,), (1, 1), (1, 2), (2, 1)) if full else ((1,), (2,), (1, 1)):
                idx = [i0]
                for st in strides:
                    idx.append(idx[-1] + st)
                if idx[-1] < len(grid):
                    yield 'base-' + name, ref, q, [grid[i] for i in idx]
    for name, ref, q, grid in list(c15.ladder_worlds(full)) + list(c15.collision_worlds()) + (dups if full else dups[::3]):
        for k in range(1, kmax + 1):
            for c in itertools.combinations(grid, k):
                yield name, ref, q, list(c)
                if k > 1:
                    yield name, ref, q, list(c[::-1])
