"""Collector extensions.  Importable module => dill pickles the classes by reference, and every per-task copy of an
extension appends to this module-level sink of the process that executes the task."""
from mc import core

core.setup_repo_path()

from src.extensions.extension import Extension  # noqa: E402
from src.extensions.messages import (MultipleAlignmentResultRowsMessage, InitialAlignmentMessage,  # noqa: E402
                                     AlignmentResultRowMessage, CorrelationResultMessage)

EVENTS = []


def _row_summary(m):
    a = m.alignment
    return dict(query=int(m.query.moleculeId), shift=int(m.query.shift), reference=int(m.reference.moleculeId),
                reverse=bool(a.reverseStrand), confidence=float(a.confidence), index=m.index,
                pairs=[(p.reference.siteId, p.query.siteId) for p in a.alignedPairs],
                seed=(float(m.correlation.maxPeak.position), float(m.correlation.maxPeak.score)) if m.correlation.maxPeak else None)


class Candidates(Extension):
    messageType = MultipleAlignmentResultRowsMessage

    def handle(self, message):
        EVENTS.append(('cands', [_row_summary(m) for m in message.messages]))


MIN_PEAK_DISTANCE = 20000      # the default of -md; checks that use all_heights do not deviate from it


class Seeds(Extension):
    messageType = InitialAlignmentMessage

    def handle(self, message):
        d = message.data
        # heights of ALL primary peaks of this correlation (recomputed from the correlation array the message carries), so that a
        # check can tell whether the peaks COMA kept are the highest ones
        allh = None
        try:
            import numpy as np
            from scipy.signal import find_peaks
            corr = np.asarray(d.correlation)
            if corr.size:
                _, props = find_peaks(corr, height=0.75 * np.max(corr), distance=MIN_PEAK_DISTANCE / d.resolution)
                allh = sorted((float(h) for h in props['peak_heights']), reverse=True)[:40]
        except Exception:
            allh = None
        EVENTS.append(('seeds', int(d.query.moleculeId), int(d.query.shift), int(d.reference.moleculeId), bool(d.reverseStrand),
                       [(float(p.position), float(p.score), float(p.height)) for p in d.peaks], allh))


class Refined(Extension):
    """the secondary (refined) correlation of every seed: its peaks converted to base pairs, as the aligner will use them"""
    messageType = CorrelationResultMessage

    def handle(self, message):
        r = message.refinedAlignment
        EVENTS.append(('refined', int(r.query.moleculeId), int(r.query.shift), int(r.reference.moleculeId), bool(r.reverseStrand),
                       message.index, [(float(p.position), float(p.score)) for p in r.peaks]))


class Rows(Extension):
    """keeps the candidate row objects themselves (with segments/positions/peak) - in-process stand-in pool only"""
    messageType = AlignmentResultRowMessage

    def handle(self, message):
        EVENTS.append(('row', message))
