"""Independent pure-Python XMAP text parser."""
from mc.oracles import parse_pairs

COLUMNS = ["XmapEntryID", "QryContigID", "RefContigID", "QryStartPos", "QryEndPos", "RefStartPos", "RefEndPos", "Orientation",
           "Confidence", "HitEnum", "QryLen", "RefLen", "AlignedRest", "LabelChannel", "Alignment"]


def parse(txt):
    """returns (comment_lines, header_names, records) - records are dicts of raw strings plus 'pairs'."""
    comments, names, recs = [], None, []
    for line in txt.split('\n'):
        if line.startswith('#'):
            comments.append(line)
            if line.startswith('#h'):
                names = line.split('\t')[1:]
            continue
        if line == '':
            continue
        f = line.split('\t')
        rec = dict(zip(names or COLUMNS, f))
        rec['_fields'] = f
        try:
            rec['pairs'] = parse_pairs(rec.get('Alignment', ''))
        except Exception:
            rec['pairs'] = None
        recs.append(rec)
    return comments, names, recs


def wellformed_problems(txt):
    bad = []
    lines = txt.split('\n')
    if not txt.endswith('\n'):
        bad.append('no-final-newline')
    comments = [l for l in lines if l.startswith('#')]
    if not any(l.startswith('#h') for l in comments) or not any(l.startswith('#f') for l in comments):
        bad.append('missing-#h/#f')
    hnames = next((l.split('\t')[1:] for l in comments if l.startswith('#h')), COLUMNS)
    for need in COLUMNS:
        if need not in hnames:
            bad.append('missing-column=%s' % need)
    nfields = len(hnames)
    seen_data = False
    for l in lines:
        if l.startswith('#'):
            if seen_data:
                bad.append('comment-after-data')
            continue
        if l == '':
            continue
        seen_data = True
        if len(l.split('\t')) != nfields:
            bad.append('field-count=%d' % len(l.split('\t')))
    return bad


def record_key(rec):
    """record as a field tuple without XmapEntryID"""
    return tuple(rec['_fields'][1:])
