"""The join seam (S1): AlignmentResults.resolve on a first-pass row and a second-pass row that the REAL aligner builds from a two-part
lattice molecule - the second-pass fragment is cut by the real AlignmentResultRow.getUnalignedFragments.

A case fixes: where the two parts come from on the reference (collinear with 0..6 labels between them, or transposed: the part that
comes later in the molecule lies upstream on the reference), which part is placed in the first pass, the gap between the parts in the
molecule (true gap, insertion, small), the strand, and maxDifference.  Used by C01 (validity of the joined record) and C08 (join
eligibility; subset / union clauses).
"""
import itertools

from mc import core
from mc.coma import make_aligner, OpticalMap, Peak

core.setup_repo_path()
from src.alignment.alignment_results import AlignmentResults  # noqa: E402

GAPS = [12, 27, 18, 33, 15, 24, 39, 21, 30, 14, 26, 36, 17, 29, 22, 34, 13, 28, 19, 31, 16, 25, 37, 20, 32, 11, 23, 38, 35, 27, 18, 33,
        14, 29, 21, 36, 16, 31, 24, 38]
REF = [50]
for _g in GAPS:
    REF.append(REF[-1] + _g)
N1 = 8                  # labels of the part placed in the first pass; the other part has 7, 8 or 9 (equal label counts take another
                        # branch of the conflict resolution than unequal ones)
N2S = (7, 8, 9)
SCALE = 100             # lattice units -> "bp" (maxDifference values are given in bp)


def cases():
    """(a, b, first_part_leads, gap_kind, reverse, maxDifference, junk, n2): the first-pass part is REF[a:a+N1], the other REF[b:b+n2];
    junk = number of labels between the two parts that belong to neither (they keep the second-pass alignment away from the three
    labels the fragment shares with the first-pass alignment, so the two rows have no label in common)"""
    out = []
    for a in (3, 13):
        for n2 in N2S:
            rel = [a + N1 + k for k in (0, 1, 3, 6)] + [a - n2 - k for k in (0, 1, 3) if a - n2 - k >= 1]
            for b in rel:
                for leads in (True, False):
                    for gk in ('true', 'insertion', 'small'):
                        for rev in (False, True):
                            for md in (0, 4000, 1000000):
                                for junk in (0, 2):
                                    out.append((a, b, leads, gk, rev, md, junk, n2))
    return out


def build(a, b, leads, gk, junk=0, N2=7):
    """whole molecule (forward layout, first label at 0) and the true pairs of its two parts"""
    p1 = [REF[i] - REF[a] for i in range(a, a + N1)]
    p2 = [REF[i] - REF[b] for i in range(b, b + N2)]
    first, second = (p1, p2) if leads else (p2, p1)
    if gk == 'true' and ((leads and b >= a + N1) or (not leads and a >= b + N2)):
        lo_end, hi_start = (a + N1 - 1, b) if leads else (b + N2 - 1, a)
        gap = max(8, REF[hi_start] - REF[lo_end])
    elif gk == 'insertion' or gk == 'true':
        gap = 60
    else:
        gap = 9
    extra = []
    if junk:
        gap += 46
        extra = [first[-1] + 23 + 9 * i for i in range(junk)]
    q = list(first) + extra + [first[-1] + gap + x for x in second]
    n_first = len(first) + len(extra)
    if leads:
        t1 = [(a + 1 + i, 1 + i) for i in range(N1)]
        t2 = [(b + 1 + i, n_first + 1 + i) for i in range(N2)]
    else:
        t2 = [(b + 1 + i, 1 + i) for i in range(N2)]
        t1 = [(a + 1 + i, n_first + 1 + i) for i in range(N1)]
    return q, t1, t2


def run(case, aligner=None):
    """-> dict with the pairs of the first-pass row, of the second-pass rows, of the joined rows and of the rows left separate"""
    a, b, leads, gk, rev, md, junk, n2 = case
    al = aligner or make_aligner(4 * SCALE, 100 * SCALE, 1, -25 * SCALE, 100 * SCALE, 120 * SCALE)
    qf, t1, t2 = build(a, b, leads, gk, junk, n2)
    n = len(qf)
    qf = [x * SCALE for x in qf]
    ref = [x * SCALE for x in REF]
    qpos = qf if not rev else sorted(qf[-1] - x for x in qf)
    R = OpticalMap(1, ref[-1] + 20 * SCALE, list(ref))
    Q = OpticalMap(7, qpos[-1] + 1, list(qpos))
    # diagonals (reference coordinate minus query coordinate in the strand's frame) of the two parts: the frame of the reverse
    # strand mirrors the mirrored molecule back, so the diagonals are those of the forward layout
    d1 = ref[t1[0][0] - 1] - qf[t1[0][1] - 1]
    d2 = ref[t2[0][0] - 1] - qf[t2[0][1] - 1]
    A = al.align(R, Q, [Peak(d1, 10.)], rev)
    out = dict(n=n, first=[(p.reference.siteId, p.query.siteId) for p in A.alignedPairs], second=[], joined=[], separate=[], fragments=0,
               truth1=t1 if not rev else [(r, n + 1 - q_) for r, q_ in t1], truth2=t2 if not rev else [(r, n + 1 - q_) for r, q_ in t2])
    if not A.alignedPairs:
        return out
    frags = A.getUnalignedFragments([Q])
    out['fragments'] = len(frags)
    rows = [A]
    for f in frags:
        B = al.align(R, f, [Peak(d2, 10.)], rev)
        if B.alignedPairs:
            B = B.setAlignedRest(True)
            out['second'].append([(p.reference.siteId, p.query.siteId) for p in B.alignedPairs])
            rows.append(B)
    # the coordinator keeps one second-pass row per query (the best one) before joining
    if len(rows) > 2:
        best = max(rows[1:], key=lambda r_: r_.confidence)
        rows = [A, best]
        out['second'] = [[(p.reference.siteId, p.query.siteId) for p in best.alignedPairs]]
    if len(rows) == 2:
        out['gap'] = abs(max(rows[0].referenceStartPosition, rows[1].referenceStartPosition) -
                         min(rows[0].referenceEndPosition, rows[1].referenceEndPosition))
        joined, separate = AlignmentResults.resolve(list(rows), md)
        out['joined'] = [dict(pairs=[(p.reference.siteId, p.query.siteId) for p in j.alignedPairs], reverse=bool(j.reverseStrand),
                              hit=j.cigarString, qs=j.queryStartPosition, qe=j.queryEndPosition) for j in joined]
        out['separate'] = [[(p.reference.siteId, p.query.siteId) for p in s.alignedPairs] for s in separate]
    return out


def describe(case):
    a, b, leads, gk, rev, md, junk, n2 = case
    return dict(first_pass_part=[a, N1], other_part=[b, n2], first_pass_part_leads=leads, gap=gk, reverse=rev, maxDifference=md, junk=junk)
