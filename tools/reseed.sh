#!/bin/sh
# regression suite for the harness itself: every stored seed must still be caught by the quick tier of its own property's check
cd "$(dirname "$0")/.."
for d in seeded/*/; do
  n=$(basename $d); c=$(echo $n | cut -d- -f1)
  r=$(tools/mut.py $d/patch.diff --checks $c --skip-tests 2>&1 | grep "^$c rc=" | cut -c1-200)
  echo "$n: $r"
done
