#!/venv/bin/python
"""Apply a patch to a scratch worktree of /repo, run the pinned tests and selected checks against it, clean up.

usage: tools/mut.py <patch.diff> [--checks C01,C04 | --all] [--tier quick] [--keep]
Evidence/replays of these runs go to a scratch directory (never to /verif/evidence).
"""
import argparse
import json
import os
import shutil
import subprocess
import sys
import tempfile
import time

VERIF = os.path.dirname(os.path.dirname(os.path.abspath(__file__)))
ALL = ['C%02d' % i for i in range(1, 21)]


def main():
    ap = argparse.ArgumentParser()
    ap.add_argument('patch')
    ap.add_argument('--checks', default='')
    ap.add_argument('--all', action='store_true')
    ap.add_argument('--tier', default='quick')
    ap.add_argument('--seed', default='0')
    ap.add_argument('--skip-tests', action='store_true')
    a = ap.parse_args()
    patch = os.path.abspath(a.patch)
    wt = tempfile.mkdtemp(prefix='cv-mut-', dir='/tmp')
    os.rmdir(wt)
    out = tempfile.mkdtemp(prefix='cv-mut-out-', dir='/tmp')
    res = dict(patch=patch, tests=None, checks={})
    try:
        subprocess.run(['git', '-C', '/repo', 'worktree', 'add', '--detach', '-q', wt, 'HEAD'], check=True)
        r = subprocess.run(['git', '-C', wt, 'apply', patch], capture_output=True, text=True)
        if r.returncode != 0:
            print('PATCH DOES NOT APPLY:', r.stderr)
            return 2
        if not a.skip_tests:
            t = subprocess.run(['/venv/bin/python', '-m', 'pytest', '-q', '-p', 'no:cacheprovider', '-x', '--timeout=900'], cwd=wt,
                               capture_output=True, text=True)
            tail = t.stdout.strip().splitlines()[-1] if t.stdout.strip() else t.stderr[-200:]
            res['tests'] = tail
            print('tests:', tail)
            if t.returncode != 0:
                print('KILLED BY EXISTING TESTS')
        checks = ALL if a.all else [c for c in a.checks.split(',') if c]
        env = dict(os.environ, COMA_REPO=wt, VERIF_EVIDENCE_DIR=os.path.join(out, 'evidence'), VERIF_REPLAY_DIR=os.path.join(out, 'replays'),
                   VERIF_SEED=a.seed)
        for c in checks:
            t0 = time.time()
            p = subprocess.run([os.path.join(VERIF, 'check'), c, '--tier', a.tier], env=env, capture_output=True, text=True)
            viol = [l for l in p.stdout.splitlines() if l.startswith('VIOLATION')]
            first = next((l for l in p.stdout.splitlines() if l.strip().startswith('violation ')), '')
            res['checks'][c] = dict(rc=p.returncode, violations=len(viol), first=first.strip()[:300])
            print('%s rc=%d violations=%d %.0fs %s' % (c, p.returncode, len(viol), time.time() - t0, first.strip()[:260]))
            if p.returncode not in (0, 1):
                print(p.stdout[-1500:], p.stderr[-1500:])
        print('RESULT ' + json.dumps(res))
    finally:
        subprocess.run(['git', '-C', '/repo', 'worktree', 'remove', '--force', wt], capture_output=True)
        shutil.rmtree(wt, ignore_errors=True)
        shutil.rmtree(out, ignore_errors=True)
        subprocess.run(['git', '-C', '/repo', 'worktree', 'prune'], capture_output=True)
    return 0


if __name__ == '__main__':
    sys.exit(main())
