#!/bin/sh
# usage: tools/runsome.sh <tier> C13 C14 ... - like runall.sh for the listed checks
cd "$(dirname "$0")/.."
tier=$1; shift
for c in "$@"; do
  s=$(date +%s)
  ./check $c --tier $tier > /tmp/runall.$c.log 2>&1; rc=$?
  e=$(date +%s)
  echo "$c rc=$rc $((e-s))s $(grep -c '^VIOLATION' /tmp/runall.$c.log) violations $(grep -c '^KNOWN-FINDING' /tmp/runall.$c.log) known"
  grep -E '^VIOLATION|^HARNESS-ERROR|  violation layer' /tmp/runall.$c.log | head -8
done
