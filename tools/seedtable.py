#!/venv/bin/python
"""print a markdown table of /verif/seeded/*/meta.json (for DESIGN.md section 6)"""
import glob
import json
import os

VERIF = os.path.dirname(os.path.dirname(os.path.abspath(__file__)))
print('| seed | what was changed (sub-agent summary, shortened) | needs | checks run -> verdict |')
print('|------|---------------------------------------------------|-------|-----------------------|')
for d in sorted(glob.glob(os.path.join(VERIF, 'seeded', '*'))):
    m = json.load(open(os.path.join(d, 'meta.json')))
    runs = {}
    for r in m.get('checks_run', []):
        runs[(r['check'], r['tier'])] = r          # last run wins
    verdict = '; '.join('%s/%s: %s' % (c, t[0], 'VIOLATION (%s)' % (r['first'][0].split('symptom=')[1].split(' ')[0] if r['first'] else '?') if r['rc'] == 1
                                        else ('silent' if r['rc'] == 0 else 'harness error')) for (c, t), r in sorted(runs.items()))
    s = ' '.join(str(m.get('summary', '')).split())
    n = ' '.join(str(m.get('needs', '')).split())
    print('| %s | %s | %s | %s |' % (os.path.basename(d), s[:260] + ('...' if len(s) > 260 else ''), n[:200] + ('...' if len(n) > 200 else ''), verdict))
