#!/bin/sh
# first wave of hand-made mutants: <patch> <checks>
cd "$(dirname "$0")/.."
run() { echo "=== $1 [$2]"; tools/mut.py mutants/$1.diff --checks "$2"; }
run m_cache C09,C10
run m_uimap C09,C05
run m_signed C04,C01
run m_sortasc C05,C06
run m_mirror C11,C02,C06
run m_maxd C12,C04
run m_accept C13
run m_chain C14,C01
run m_trim C15,C01
run m_swaplen C02,C18
run m_hit C03
run m_all1 C08
run m_sort C17,C10
run m_cmpswap C19
run m_clmin C20
run m_resadj C16,C06
run m_blur C16,C06
run m_zip C10,C07
run m_qid C10
run m_overlap C08,C01
run m_f3 C07
