#!/venv/bin/python
"""Final verdict for every stored seed: run the quick tier of its own property's check against the patched tree (scratch worktree)
and record the outcome in seeded/<name>/meta.json under 'final'.  usage: tools/reverify.py [name ...]"""
import glob
import json
import os
import subprocess
import sys

VERIF = os.path.dirname(os.path.dirname(os.path.abspath(__file__)))
names = sys.argv[1:] or sorted(os.path.basename(d) for d in glob.glob(os.path.join(VERIF, 'seeded', '*')) if os.path.isdir(d))
head = subprocess.run(['git', '-C', '/repo', 'rev-parse', '--short', 'HEAD'], capture_output=True, text=True).stdout.strip()
vhead = subprocess.run(['git', '-C', VERIF, 'rev-parse', '--short', 'HEAD'], capture_output=True, text=True).stdout.strip()
for n in names:
    d = os.path.join(VERIF, 'seeded', n)
    c = n.split('-')[0]
    p = subprocess.run([os.path.join(VERIF, 'tools', 'mut.py'), os.path.join(d, 'patch.diff'), '--checks', c], capture_output=True, text=True)
    line = next((l for l in p.stdout.splitlines() if l.startswith('RESULT ')), None)
    res = json.loads(line[7:]) if line else dict(error=p.stdout[-400:])
    m = json.load(open(os.path.join(d, 'meta.json')))
    r = res.get('checks', {}).get(c, {})
    m['final'] = dict(check=c, tier='quick', rc=r.get('rc'), violation_lines=r.get('violations'), first=r.get('first'), tests_with_patch=res.get('tests'),
                      repo_head=head, verif_head=vhead)
    json.dump(m, open(os.path.join(d, 'meta.json'), 'w'), indent=1)
    print('%s: tests=%s %s rc=%s %s' % (n, res.get('tests'), c, r.get('rc'), (r.get('first') or '')[:150]), flush=True)
