#!/venv/bin/python
"""Regression of the harness against the stored seeded changes, fast variant: every seed is run against the LAYER that caught it in its
final verdict (meta.json 'final'), not against the whole check.  usage: tools/reseed_fast.py [name-regex]"""
import glob
import json
import os
import re
import subprocess
import sys

VERIF = os.path.dirname(os.path.dirname(os.path.abspath(__file__)))
pat = re.compile(sys.argv[1]) if len(sys.argv) > 1 else None
for d in sorted(glob.glob(os.path.join(VERIF, 'seeded', '*', ''))):
    n = os.path.basename(d.rstrip('/'))
    if pat and not pat.search(n):
        continue
    c = n.split('-')[0]
    m = json.load(open(os.path.join(d, 'meta.json')))
    first = (m.get('final') or {}).get('first') or ''
    mm = re.search(r'layer=(.+?) symptom=', first)
    if not mm:
        print('%s: no final verdict with a layer' % n, flush=True)
        continue
    layer = mm.group(1)
    env = dict(os.environ, VERIF_LAYERS=layer)
    p = subprocess.run([os.path.join(VERIF, 'tools', 'mut.py'), os.path.join(d, 'patch.diff'), '--checks', c, '--skip-tests'], capture_output=True, text=True, env=env)
    line = next((l for l in p.stdout.splitlines() if l.startswith(c + ' rc=')), p.stdout[-200:])
    print('%s [%s]: %s' % (n, layer, line[:160]), flush=True)
