#!/venv/bin/python
"""markdown table of what each check covered, from evidence files: tools/boundstable.py <evidence-dir> [...]"""
import glob
import json
import os
import sys

dirs = sys.argv[1:] or [os.path.join(os.path.dirname(os.path.dirname(os.path.abspath(__file__))), 'evidence')]
print('| id | tier | layer | space (rule) | executions | states | transitions | non-trivial | complete | wall s |')
print('|----|------|-------|--------------|-----------:|-------:|------------:|------------:|:--------:|-------:|')
for d in dirs:
    for f in sorted(glob.glob(os.path.join(d, 'C*.json'))):
        e = json.load(open(f))
        for l in e['coverage'].get('layers', []):
            print('| %s | %s | %s | %s | %d | %d | %d | %d | %s | %s |' % (
                e['property_id'], e['tier'], l['name'], ' '.join(str(l.get('rule', '')).split())[:150], l['evaluations'], l['states'], l['transitions'],
                l['distinct_nontrivial'], 'yes' if l['completed'] else 'NO (%d/%d blocks)' % (l['blocks_done'], l['blocks']), l['wall_s']))
