#!/bin/sh
# run every check (tier $1, default quick) against /repo and print one line per check
cd "$(dirname "$0")/.."
tier=${1:-quick}
for i in 01 02 03 04 05 06 07 08 09 10 11 12 13 14 15 16 17 18 19 20; do
  s=$(date +%s)
  ./check C$i --tier $tier > /tmp/runall.C$i.log 2>&1; rc=$?
  e=$(date +%s)
  echo "C$i rc=$rc $((e-s))s $(grep -c '^VIOLATION' /tmp/runall.C$i.log) violations $(grep -c '^KNOWN-FINDING' /tmp/runall.C$i.log) known"
done
