#!/venv/bin/python
"""Confirm a seeded change produced by a sub-agent and run checks against it.

usage: tools/seedcheck.py <agent-worktree> <k> --checks C01,C02 [--tier quick] [--name C01-1]
 1. fresh scratch worktree of /repo HEAD; demo must exit 0 there
 2. apply patch.diff; the pinned 165 tests must pass; demo must exit non-zero
 3. run the given checks with COMA_REPO pointing at the patched scratch tree
 4. copy patch.diff, demo.py, meta.json (+ our verdicts) to /verif/seeded/<name>/
The scratch worktree is removed at the end.
"""
import argparse
import json
import os
import shutil
import subprocess
import sys
import tempfile
import time

VERIF = os.path.dirname(os.path.dirname(os.path.abspath(__file__)))


def sh(cmd, cwd=None, env=None, timeout=1800):
    p = subprocess.run(cmd, cwd=cwd, env=env, capture_output=True, text=True, timeout=timeout)
    return p.returncode, p.stdout, p.stderr


def main():
    ap = argparse.ArgumentParser()
    ap.add_argument('worktree')
    ap.add_argument('k')
    ap.add_argument('--checks', default='')
    ap.add_argument('--tier', default='quick')
    ap.add_argument('--name', default=None)
    ap.add_argument('--no-store', action='store_true')
    a = ap.parse_args()
    src = os.path.join(a.worktree, 'SEED', a.k)
    name = a.name or '%s-%s' % (os.path.basename(a.worktree.rstrip('/')), a.k)
    patch = os.path.join(src, 'patch.diff')
    wt = tempfile.mkdtemp(prefix='cv-seed-', dir='/tmp')
    os.rmdir(wt)
    out = tempfile.mkdtemp(prefix='cv-seed-out-', dir='/tmp')
    rec = dict(name=name, confirmed=False, ran=[])
    try:
        sh(['git', '-C', '/repo', 'worktree', 'add', '--detach', '-q', wt, 'HEAD'])
        os.makedirs(os.path.join(wt, 'SEED', a.k))
        shutil.copy(os.path.join(src, 'demo.py'), os.path.join(wt, 'SEED', a.k, 'demo.py'))
        demo = ['timeout', '300', '/venv/bin/python', 'SEED/%s/demo.py' % a.k]
        rc0, o0, e0 = sh(demo, cwd=wt)
        rec['demo_clean_rc'] = rc0
        rc, o, e = sh(['git', '-C', wt, 'apply', patch])
        if rc != 0:
            print('patch does not apply', e)
            rec['error'] = 'patch does not apply'
            print('SEEDRESULT ' + json.dumps(rec))
            return 2
        rct, ot, et = sh(['/venv/bin/python', '-m', 'pytest', '-q', '-p', 'no:cacheprovider', '--timeout=900'], cwd=wt)
        rec['tests'] = (ot.strip().splitlines() or ['?'])[-1]
        rc1, o1, e1 = sh(demo, cwd=wt)
        rec['demo_patched_rc'] = rc1
        rec['demo_patched_tail'] = (o1 + e1).strip()[-400:]
        rec['confirmed'] = (rc0 == 0 and rc1 != 0 and rct == 0)
        print('%s: demo clean rc=%s, patched rc=%s, tests: %s -> confirmed=%s' % (name, rc0, rc1, rec['tests'], rec['confirmed']))
        env = dict(os.environ, COMA_REPO=wt, VERIF_EVIDENCE_DIR=os.path.join(out, 'evidence'), VERIF_REPLAY_DIR=os.path.join(out, 'replays'))
        for c in [c for c in a.checks.split(',') if c]:
            t0 = time.time()
            rcc, oc, ec = sh([os.path.join(VERIF, 'check'), c, '--tier', a.tier], env=env, timeout=7200)
            viol = [l for l in oc.splitlines() if l.startswith('VIOLATION')]
            firsts = [l.strip()[:240] for l in oc.splitlines() if l.strip().startswith('violation ')][:3]
            rec['ran'].append(dict(check=c, tier=a.tier, rc=rcc, violation_lines=len(viol), first=firsts, wall_s=round(time.time() - t0)))
            print('  %s/%s rc=%d violations=%d %.0fs %s' % (c, a.tier, rcc, len(viol), time.time() - t0, firsts[:1]))
            if rcc not in (0, 1):
                print(oc[-1200:], ec[-800:])
        if rec['confirmed'] and not a.no_store:
            dst = os.path.join(VERIF, 'seeded', name)
            os.makedirs(dst, exist_ok=True)
            shutil.copy(patch, os.path.join(dst, 'patch.diff'))
            shutil.copy(os.path.join(src, 'demo.py'), os.path.join(dst, 'demo.py'))
            meta = {}
            try:
                meta = json.load(open(os.path.join(src, 'meta.json')))
            except Exception:
                pass
            prev = {}
            if os.path.exists(os.path.join(dst, 'meta.json')):
                try:
                    prev = json.load(open(os.path.join(dst, 'meta.json')))
                except Exception:
                    prev = {}
            meta['confirmation'] = dict(demo_clean_rc=rc0, demo_patched_rc=rc1, tests_with_patch=rec['tests'],
                                        demo_patched_tail=rec['demo_patched_tail'], repo_head=sh(['git', '-C', '/repo', 'rev-parse', '--short', 'HEAD'])[1].strip())
            meta['checks_run'] = (prev.get('checks_run') or []) + rec['ran']
            json.dump(meta, open(os.path.join(dst, 'meta.json'), 'w'), indent=1)
        print('SEEDRESULT ' + json.dumps(rec))
    finally:
        sh(['git', '-C', '/repo', 'worktree', 'remove', '--force', wt])
        shutil.rmtree(wt, ignore_errors=True)
        shutil.rmtree(out, ignore_errors=True)
        sh(['git', '-C', '/repo', 'worktree', 'prune'])
    return 0


if __name__ == '__main__':
    sys.exit(main())
